#!/usr/bin/env python3
"""Regression of detection: every kept change under seeded/<tag>/ is applied to a scratch
worktree of /repo HEAD (under /tmp, removed afterwards) and the quick check of the property
it targets is run against it.  Records caught / held / inconclusive and harness errors.

usage: tools/seeded_matrix.py [--jobs J] [--workers W] [tag ...]   -> tools/seeded_matrix_results.jsonl
"""
import argparse
import concurrent.futures as cf
import json
import os
import shutil
import subprocess
import tempfile
import time

V = os.path.dirname(os.path.dirname(os.path.abspath(__file__)))


def one(tag, workers):
    d = os.path.join(V, "seeded", tag)
    meta = json.load(open(os.path.join(d, "meta.json")))
    prop = meta["breaks_property"]
    wt = tempfile.mkdtemp(prefix="smx_", dir="/tmp")
    rec = {"tag": tag, "property": prop, "t": time.time()}
    try:
        subprocess.run(["git", "-C", "/repo", "worktree", "add", "-f", wt, "HEAD"], capture_output=True, check=True)
        a = subprocess.run(["git", "-C", wt, "apply", os.path.join(d, "patch.diff")], capture_output=True, text=True)
        if a.returncode != 0:
            rec["outcome"] = "patch_does_not_apply"
            return rec
        env = {**os.environ, "LCM_REPO": wt, "VERIF_WORKERS": str(workers), "VERIF_REACH": "0"}
        r = subprocess.run([os.path.join(V, "check"), prop, "--tier", "quick"], cwd=V, env=env, capture_output=True, text=True, timeout=5400)
        out = r.stdout
        rec["violation_lines"] = out.count("VIOLATION property=")
        rec["first"] = next((l.strip()[:220] for l in out.splitlines() if l.startswith("   ")), "")
        rec["harness_errors"] = "harness errors" in out
        rec["outcome"] = "caught" if "VIOLATION" in out else ("held" if r.returncode == 0 else "inconclusive")
        if rec["outcome"] == "inconclusive":
            rec["inconclusive"] = next((l[:400] for l in out.splitlines() if l.startswith("INCONCLUSIVE")), "")
        st = next((l for l in out.splitlines() if "status=" in l), "")
        rec["status_line"] = st[:200]
        if "'harness_error'" in st:
            rec["harness_errors"] = True
    except Exception as e:  # noqa: BLE001
        rec["outcome"] = "error"
        rec["error"] = repr(e)[:300]
    finally:
        subprocess.run(["git", "-C", "/repo", "worktree", "remove", "--force", wt], capture_output=True)
        shutil.rmtree(wt, ignore_errors=True)
        rec["wall"] = round(time.time() - rec.pop("t"), 1)
    return rec


if __name__ == "__main__":
    ap = argparse.ArgumentParser()
    ap.add_argument("--jobs", type=int, default=3)
    ap.add_argument("--workers", type=int, default=5)
    ap.add_argument("tags", nargs="*")
    a = ap.parse_args()
    tags = a.tags or sorted(t for t in os.listdir(os.path.join(V, "seeded")) if os.path.exists(os.path.join(V, "seeded", t, "meta.json")))
    outp = os.path.join(V, "tools", "seeded_matrix_results.jsonl")
    with cf.ThreadPoolExecutor(max_workers=a.jobs) as ex, open(outp, "a") as fh:
        for r in ex.map(lambda t: one(t, a.workers), tags):
            fh.write(json.dumps(r) + "\n")
            fh.flush()
            print(r["tag"], r["property"], r["outcome"], r.get("violation_lines"), "HARNESS_ERRORS" if r.get("harness_errors") else "", r.get("inconclusive", ""), flush=True)
