#!/bin/bash
# Run the repository's pinned baseline (guard OFF) and compare with BASELINE.json's stable_pass.
# usage: tools/baseline.sh [repo_dir]
REPO=${1:-/repo}
OUT=$(mktemp -d)
unset LCM_VERIF
( cd "$REPO" && PYTHONPATH="$REPO/src" /venv/bin/python -m pytest -ra -q -p no:cacheprovider --timeout=900 \
    --continue-on-collection-errors --junitxml="$OUT/j.xml" >"$OUT/log" 2>&1 )
python3 - "$OUT/j.xml" <<'PY'
import json, sys, xml.etree.ElementTree as ET
base = set(json.load(open("/root/.vp/BASELINE.json"))["stable_pass"])
passed = set()
for tc in ET.parse(sys.argv[1]).getroot().iter("testcase"):
    if not any(c.tag in ("failure", "error", "skipped") for c in tc):
        passed.add(f"{tc.get('classname')}::{tc.get('name')}")
missing = sorted(base - passed)
print(f"baseline: {len(base & passed)}/{len(base)} stable tests pass; extra passing: {len(passed - base)}")
for m in missing[:20]:
    print("  MISSING", m)
sys.exit(1 if missing else 0)
PY
rc=$?
rm -rf "$OUT"
exit $rc
