#!/usr/bin/env python3
"""Regenerate MANIFEST.json from the table below + the check modules that exist."""
import json, os, sys
V = os.path.dirname(os.path.dirname(os.path.abspath(__file__)))
props = [json.loads(l) for l in open(os.path.join(V, "properties.jsonl"))]

CHECKS = {
 "C01": dict(technique="reference-model monitor: numpy Bellman oracle on every entry of every value array of generated models; in-situ monitor on per-period conditional value arrays (jit=False); jax checkify index sanitizer",
             text="Held on K generated supported models (2 parameter sets each, jit on/off, x64 on/off): every entry of every period compared with an independent numpy backward induction. Exploration, not proof: model space is unbounded, sizes bounded by XLA compile time.",
             ref="5/C01", note="trusted: numpy float64, the 150-line reference model, the harness-side jax.util shim; user functions evaluated in both array libraries"),
 "C02": dict(technique="reference-model monitor over recorded panels: Q over all grid choices per (agent, period) row; in-situ post-conditions on argmax/segment_argmax and on the data state-choice space inside real simulate() runs",
             text="Held on K generated models x initial-state batches x three kinds of value arrays (own solution, reference solution, random): every in-scope row's choices are grid values, feasible and value-maximal by the reference model's Q. Exploration over generated structure; judged on values so ties cannot alarm.",
             ref="5/C02", note="trusted: numpy reference Q-values and path-validity screening; harness jax.util shim"),
 "C03": dict(technique="trace checker over recorded panels: deterministic successors recomputed by the reference per (agent,t) row; stochastic successors checked against row-specific supports of the transition arrays",
             text="Held on K generated models: period-0 columns equal the inputs; every in-scope deterministic transition equals the user's transition function at the same row; every stochastic draw has positive probability in the agent's row (arrays built with 1-2-label row-specific supports so a wrong row/order/period is hit w.p. >= 1/2 per draw).",
             ref="5/C03", note="trusted: numpy evaluation of user transition functions; scope tracking along paths"),
 "C06": dict(technique="cross-check monitor: simulated value of on-grid rows vs entry of lcm's own solved arrays (addressed through the reference layout); frame equality solve_and_simulate vs simulate(solve(p))",
             text="Held on K generated models incl. fully discrete models (all periods on-grid) and node-to-node continuous transitions; exploration.",
             ref="5/C06", note="trusted: reference layout map (decided separately by C05)"),
 "C08": dict(technique="metamorphic monitor: same agents simulated in permuted / subset / duplicated / single-agent batches and with reversed key order; paths keyed by agent id compared; ties adjudicated by reference Q-gap",
             text="Held on K deterministic generated models x 6 batch variants each (period 0 only for stochastic models); exploration.",
             ref="5/C08", note="trusted: reference Q-values for tie adjudication; only rows inside the model's space are compared"),
 "C13": dict(technique="structural oracle on the returned DataFrame + reference re-evaluation of every additional-target column at every in-scope row",
             text="Held on K generated models x N in {1,2,7,64} x target subsets: index, order, columns, _period, agent identity (law-of-motion chain) exact; target columns equal the model functions at the row.",
             ref="5/C13", note="trusted: numpy evaluation of user functions"),
 "C15": dict(technique="reference-model monitor on the real kernel: independent 2^rank blend vs lcm.ndimage.map_coordinates; inverse laws of get_coordinate on random grids",
             text="Held on K random arrays (rank 1-4) x coordinate batches and K random linear/log grids; tolerances conditioned on the grid (eps*|v|/step). x64 and f32.",
             ref="5/C15", note="trusted: numpy reference blend"),
 "C16": dict(technique="outcome oracle on grid constructors: exhaustive enumeration of a pool of 31x31x11 argument triples x 2 grid kinds and 27 category-value tuples x 3 class kinds, plus random compositions",
             text="Every construction ends in GridInitializationError or an array that satisfies the statement (length, finite, strictly increasing, end points, equal spacing); discrete acceptance iff values numerically 0..n-1. The pools are enumerated exhaustively; random compositions beyond.",
             ref="5/C16", note="x64 on; bool bounds judged at float32 precision (JAX promotes bools to float32); numpy-scalar field values / dataclass instances observed only; known finding: span below resolution", category="exploration"),
 "C17": dict(technique="reference-model monitor on create_state_choice_space: itertools-style enumeration oracle; exhaustive enumeration of all boolean filter tables for 5 small restricted-variable shapes, sampled multi-filter/period-dependent spaces",
             text="651 masks enumerated exhaustively (all tables with >=1 passing combination for shapes 2x2, 2x3, 3x2, 2x2x2 with 2 states, 2x2x2 with 2 choices) plus sampled spaces with 1-3 filters, 1-3 restricted states, 0-3 restricted choices, _period; stored combinations, indexer, segments, dense grids, axis names compared exactly.",
             ref="5/C17", note="trusted: numpy evaluation of the filter text + argwhere enumeration"),
 "C18": dict(technique="numpy oracle on the real arg-max primitives (eager and jit, all axis subsets, masks, ties), segment_argmax, the discrete-choice reduction vs python loops, and the real continuation-policy + spacemap wiring inside one jit with producers re-evaluated eagerly",
             text="Held on K arrays/segmentations/layouts; fused-producer cases reproduce the structure in which the original equality-based arg-max failed.",
             ref="5/C18", note="trusted: numpy reductions; NaN among candidates not covered by the statement"),
 "C19": dict(technique="closed-form oracle by parameter name (= nested python loops) on productmap / vmap_1d / spacemap and the keyword/positional wrappers for generated functions of all parameter kinds",
             text="Held on K generated functions x ordered subsets of mapped names (exhaustive for <= 4 parameters and <= 3 mapped names), shuffled keyword orders, scalar/tuple/dict outputs, misuse -> ValueError.",
             ref="5/C19", note="parameters with defaults are outside the statement and not generated"),
 "C14": dict(technique="reference-model monitor on get_function_representation with random SpaceInfo / masks / arrays / points (scalar, vmap, jit), direct structural clauses, jax checkify index sanitizer",
             text="Held on K random spaces x 96 points each (nodes, midpoints, interior, outside linear grids), both indexer constructions, three input prefixes; node reproduction, linearity between nodes and linear continuation checked directly as well.",
             ref="5/C14", note="trusted: numpy reference interpolation; log grids evaluated inside their range only"),
 "C20": dict(technique="numpy longdouble log-sum-exp oracle + per-cell law monitors (finite, bounds, shift equivariance, small-scale limit, axis==segment layout) on the real aggregation functions, jax_debug_nans on",
             text="Held on K random arrays/segmentations/scales (1e-8..1e8, magnitudes to 1e6), eager and jit, x64 and f32.",
             ref="5/C20", note="scale range bounded so that value/scale is representable"),
 "C05": dict(technique="reference-layout monitor: shapes and every entry of the solved arrays vs the layout derived from the statement, on template models with pairwise different axis lengths, asymmetric and period-dependent functions, permuted declaration orders; in-situ check of every space-info's axis_names",
             text="Held on K models x declaration orders (all 24 orders of a fixed 4-state model in the thorough tier); list length, exact shapes, entries 1e-9.",
             ref="5/C05", note="trusted: reference values identify the state of an entry; layout derived from the statement's wording"),
 "C07": dict(technique="exact template oracle + sensitivity monitor (one changed leaf -> same generated function re-run must equal the reference for the new parameters) on models with colliding parameter names; metamorphic permutation of stochastic dependency order",
             text="Held on K generated models: templates of solve and simulate targets equal the expected template; >= 400 single-leaf changes routed correctly; dependency permutations leave the solution unchanged.",
             ref="5/C07", note="trusted: reference routes by function name by construction"),
 "C10": dict(technique="metamorphic monitor: two differently written specifications of the same model solved by the real code and compared state by state through the layout map; five rewriting kinds",
             text="Held on K base models x {permute, rename, always-true constraint, always-true filter, filter-as-constraint}; base additionally compared with the reference.",
             ref="5/C10", note="trusted: layout map; rewritings are equivalence-preserving by construction"),
 "C11": dict(technique="metamorphic law monitors between pairs of real solve() runs (affine utility, beta=0, horizon independence, one-hot == deterministic) on small generated and on large consumption-saving models",
             text="Held on K pairs incl. large models (thorough: 300 x 1000 x 8) for which no reference enumeration is feasible.",
             ref="5/C11", note="laws compared between two runs of the real code, 1e-9 relative"),
 "C04": dict(technique="statistical monitors over recorded panels (Bernstein bounds at 1e-13 per test): per-cell label frequencies, exact zero-probability counts, independence across variables / periods / agents, seed reproducibility; trace checker over every PRNG key handed out",
             text="Held on K dedicated stochastic models x 20000 (quick) / 200000 (thorough) agents; bounds, does not prove: deviations below ~7.8 sd of a cell are invisible.",
             ref="5/C04", note="family-wise false-alarm probability < 1e-8 per run; key trace is an in-situ monitor on _generate_simulation_keys"),
 "C09": dict(technique="history checker: random call histories on one function object vs golden tables from fresh function objects in fresh processes under other PYTHONHASHSEEDs; deep before/after snapshots of model and params",
             text="Held on K models x histories (repeats, interleavings, 4 leaf types, jit on/off); golden tables agree across hash seeds.",
             ref="5/C09", note="golden processes execute the same working tree"),
 "C12": dict(technique="ground-truth-by-construction monitor: all single and pairwise injections of the 22 documented rule violations must be rejected up front with the library's errors; every accepted shape of a feature lattice (and generated models) must solve and simulate; failures keyed by mechanism",
             text="253 injection sets on the template + random triples on generated models all rejected up front; 21 lattice features alone and in pairs + generated models run to completion except six recorded known findings.",
             ref="5/C12", note="'accepted => runnable' explored over the lattice, not over all Python objects; known findings in known_findings.json", category="exploration"),
}
DEFAULT_NA = "check not built yet in this revision of /verif (planned in DESIGN.md section 5)"

checks, na = [], []
# workloads and monitors added in the second build session (DESIGN appendix A.1c-A.1h)
EXTRA = {
 "C01": "; workload classes: sibling / alias / swapped-grid-kind models run first in the process, one params mapping edited in place between calls, second calls with other leaf types, utility in units 1e-30..1e290, -inf values reached with probability 0, integer-dtype utilities, stateless models, axes of 150-1200 points, three continuous states; advisory trace checker of the backward loop (W9)",
 "C02": "; value arrays passed to either target; single precision; units 1e-30..1e290; a 32000-agent panel with 24-30 point continuous choice grids; advisory trace checker of the simulate loop (W8)",
 "C03": "; law of motion judged for every reported row inside the space (also agents without a finite optimum); many-category states with int8/uint8 initial states; simulate built with jit=False",
 "C04": "; twin cases in another interpreter session (PYTHONHASHSEED) compared by frame digest; seed 0; seed / target / initial-state representations rotated",
 "C05": "; a twin made of the same grid and function objects in reverse declaration order processed first; second call of every solve function",
 "C06": "; integer-node grids with int-typed initial states; units 1e-30..1e290; params edited in place between solve_and_simulate calls; the caller's value arrays handed over twice",
 "C07": "; alias sibling sharing the judged model's function objects under other names; constraints consuming next-state outputs; many-category transition arrays with int8/uint8 labels",
 "C08": "; groups with unequal restricted-row counts summing to multiples of the group size; segment template; numpy initial states in other key orders",
 "C09": "; siblings (other bodies, swapped grid kinds) run first; params and initial_states mappings re-used and edited in place; a single-precision call inside each history; probabilities of 1e-20; the caller's value arrays re-used; four hash seeds per case",
 "C10": "; permutation written with the base model's own grid and function objects; layout mismatches reported as verdicts; differences of discrete variables in utilities",
 "C11": "; affine law through parameters edited in place on one solve / solve_and_simulate function (value column of the simulated panel); integer-dtype and stateless templates",
 "C12": "; 62 context variants of the rule violations on 4-9 bases (with and without filters); near-integer category codes",
 "C13": "; sibling models with the same function names and targets run first; one initial_states mapping re-used; panels above 2**14 rows; simulate built with jit=False",
 "C14": "; swapped-grid-kind representation built first; -inf entries on exact-node grids; int8/uint8 labels on axes with 12-20 categories; shuffled info-dict order; axes of 800-2500 points",
 "C15": "; arrays with infinite entries at exact coordinates; twin grid of the other kind materialised first; integer-typed values; exact-rational oracle for linear coordinates",
 "C16": "; ClassVar category classes; subclass-after-base sequences; W11: continuous choice grids held by the generated solve function equal the specification",
 "C17": "; W10: spaces and choice segments held per period by the generated solve function; filters with their own reductions",
 "C18": "; near ties (3e-7 relative); narrow-integer segment ids; values below float32's lowest number; producers whose signature order differs from the listed order",
 "C19": "; defaults (two-sided oracle: ValueError or by-name binding); argument lists must come back unchanged, second dispatcher from the same list; unknown keyword with the right argument count",
 "C20": "; integer-typed values; scale as python / numpy / 0-d array",
}

for p in props:
    pid = p["id"]
    have = os.path.exists(os.path.join(V, "checks", pid.lower() + ".py")) and pid in CHECKS
    if not have:
        na.append({"property_id": pid, "reason": DEFAULT_NA})
        continue
    c = CHECKS[pid]
    checks.append({
        "property_id": pid,
        "quick_cmd": f"./check {pid} --tier quick",
        "thorough_cmd": f"./check {pid} --tier thorough",
        "evidence_file": f"evidence/{pid}.json",
        "replay_cmd_template": f"./check {pid} --replay {{path}}",
        "engine": "vlib",
        "level_claimed": {"category": c.get("category", "exploration"), "text": c["text"], "design_ref": c["ref"]},
        "level_note": c["note"],
        "technique": c["technique"] + EXTRA.get(pid, ""),
    })
m = {
 "version": 1,
 "setup_cmd": "/venv/bin/python -m pip install --quiet --no-index --find-links /opt/veriftools/wheels --target .deps icontract >/dev/null 2>&1; /venv/bin/python -c \"import sys; sys.path.insert(0,'.'); from vlib import bootstrap; print('lcm from', bootstrap.lcm.__file__, 'shim', bootstrap.SHIM_ACTIVE, 'icontract', bootstrap.have_icontract())\"",
 "hooks": {"guard": "LCM_VERIF", "enable": "no source hooks: monitors are attached from the harness by rebinding module globals before the generated functions are built; workers import lcm from /repo/src (current working tree) and set LCM_VERIF=1 (inert)", 
           "baseline_off_cmd": "tools/baseline.sh /repo", "source_commits": [], "add_only": True},
 "engines": [{"name": "vlib", "path": "vlib/", "serves_properties": [c["property_id"] for c in checks],
              "kind_free_text": "runtime monitoring: workload generator + independent numpy reference model + contracts/recorders attached to the real functions; subprocess workers; three-valued verdicts"}],
 "checks": checks,
 "not_applicable": na,
 "notes": "exit 0 held / 1 violated (VIOLATION lines) / 2 inconclusive (INCONCLUSIVE line). known findings: known_findings.json. See DESIGN.md.",
}
json.dump(m, open(os.path.join(V, "MANIFEST.json"), "w"), indent=1)
print("checks:", [c["property_id"] for c in checks], "n/a:", len(na))
