#!/usr/bin/env python3
"""Regenerate MANIFEST.json from the table below + the check modules that exist."""
import json, os, sys
V = os.path.dirname(os.path.dirname(os.path.abspath(__file__)))
props = [json.loads(l) for l in open(os.path.join(V, "properties.jsonl"))]

CHECKS = {
 "C01": dict(technique="reference-model monitor: numpy Bellman oracle on every entry of every value array of generated models; in-situ monitor on per-period conditional value arrays (jit=False); jax checkify index sanitizer",
             text="Held on K generated supported models (2 parameter sets each, jit on/off, x64 on/off): every entry of every period compared with an independent numpy backward induction. Exploration, not proof: model space is unbounded, sizes bounded by XLA compile time.",
             ref="5/C01", note="trusted: numpy float64, the 150-line reference model, the harness-side jax.util shim; user functions evaluated in both array libraries"),
 "C02": dict(technique="reference-model monitor over recorded panels: Q over all grid choices per (agent, period) row; in-situ post-conditions on argmax/segment_argmax and on the data state-choice space inside real simulate() runs",
             text="Held on K generated models x initial-state batches x three kinds of value arrays (own solution, reference solution, random): every in-scope row's choices are grid values, feasible and value-maximal by the reference model's Q. Exploration over generated structure; judged on values so ties cannot alarm.",
             ref="5/C02", note="trusted: numpy reference Q-values and path-validity screening; harness jax.util shim"),
}
DEFAULT_NA = "check not built yet in this revision of /verif (planned in DESIGN.md section 5)"

checks, na = [], []
for p in props:
    pid = p["id"]
    have = os.path.exists(os.path.join(V, "checks", pid.lower() + ".py")) and pid in CHECKS
    if not have:
        na.append({"property_id": pid, "reason": DEFAULT_NA})
        continue
    c = CHECKS[pid]
    checks.append({
        "property_id": pid,
        "quick_cmd": f"./check {pid} --tier quick",
        "thorough_cmd": f"./check {pid} --tier thorough",
        "evidence_file": f"evidence/{pid}.json",
        "replay_cmd_template": f"./check {pid} --replay {{path}}",
        "engine": "vlib",
        "level_claimed": {"category": c.get("category", "exploration"), "text": c["text"], "design_ref": c["ref"]},
        "level_note": c["note"],
        "technique": c["technique"],
    })
m = {
 "version": 1,
 "setup_cmd": "/venv/bin/python -m pip install --quiet --no-index --find-links /opt/veriftools/wheels --target .deps icontract >/dev/null 2>&1; /venv/bin/python -c \"import sys; sys.path.insert(0,'.'); from vlib import bootstrap; print('lcm from', bootstrap.lcm.__file__, 'shim', bootstrap.SHIM_ACTIVE, 'icontract', bootstrap.have_icontract())\"",
 "hooks": {"guard": "LCM_VERIF", "enable": "no source hooks: monitors are attached from the harness by rebinding module globals before the generated functions are built; workers import lcm from /repo/src (current working tree) and set LCM_VERIF=1 (inert)", 
           "baseline_off_cmd": "tools/baseline.sh /repo", "source_commits": [], "add_only": True},
 "engines": [{"name": "vlib", "path": "vlib/", "serves_properties": [c["property_id"] for c in checks],
              "kind_free_text": "runtime monitoring: workload generator + independent numpy reference model + contracts/recorders attached to the real functions; subprocess workers; three-valued verdicts"}],
 "checks": checks,
 "not_applicable": na,
 "notes": "exit 0 held / 1 violated (VIOLATION lines) / 2 inconclusive (INCONCLUSIVE line). known findings: known_findings.json. See DESIGN.md.",
}
json.dump(m, open(os.path.join(V, "MANIFEST.json"), "w"), indent=1)
print("checks:", [c["property_id"] for c in checks], "n/a:", len(na))
