#!/bin/bash
# Confirm a sub-agent's seeded change independently, then run checks against it.
#   tools/confirm_seeded.sh <dir with patch.diff + demo.py> <tier> [<ID> ...]
D=$(readlink -f "$1"); TIER=$2; shift 2
WT=$(mktemp -d /tmp/confirm_XXXXXX)
git -C /repo worktree add -f "$WT" HEAD >/dev/null 2>&1 || { echo "worktree failed"; exit 3; }
cd "$(dirname "$(readlink -f "$0")")/.."
run_demo() { ( cd "$D" && PYTHONPATH="$WT/src" timeout 900 /venv/bin/python demo.py >/tmp/confirm_demo.log 2>&1; echo $? ); }
echo "demo on ORIGINAL tree: exit $(run_demo)  (expected 0)"
if ! git -C "$WT" apply "$D/patch.diff"; then echo "PATCH DOES NOT APPLY"; git -C /repo worktree remove --force "$WT"; exit 3; fi
echo "files changed: $(git -C "$WT" diff --stat | tail -1)"
echo "demo on PATCHED tree:  exit $(run_demo)  (expected != 0); last line: $(grep -v WARNING /tmp/confirm_demo.log | tail -1 | cut -c1-200)"
tools/baseline.sh "$WT" | head -3
for id in "$@"; do
  echo "== $id ($TIER) on patched tree:"
  LCM_REPO="$WT" VERIF_WORKERS=${VERIF_WORKERS:-12} ./check "$id" --tier "$TIER" 2>&1 | grep -v WARNING | grep -E "^\[.*(status|HELD)|VIOLATION|INCONCLUSIVE|^   " | cut -c1-250 | head -${TRIAL_LINES:-7}
done
git -C /repo worktree remove --force "$WT"; rm -rf "$WT"
