#!/bin/bash
# Try a candidate breaking change against the checks without touching /repo:
#   tools/trial.sh <patch.diff> <tier> <ID> [<ID> ...]
# creates a scratch worktree of /repo HEAD, applies the patch, runs the baseline and the
# given checks with LCM_REPO pointing at the scratch tree, removes the worktree.
PATCH=$(readlink -f "$1"); TIER=$2; shift 2
WT=$(mktemp -d /tmp/trial_XXXXXX)
git -C /repo worktree add -f "$WT" HEAD >/dev/null 2>&1 || { echo "worktree failed"; exit 3; }
if ! git -C "$WT" apply "$PATCH"; then echo "PATCH DOES NOT APPLY"; git -C /repo worktree remove --force "$WT"; exit 3; fi
cd "$(dirname "$(readlink -f "$0")")/.."
echo "== baseline on patched tree:"; tools/baseline.sh "$WT" | head -3
for id in "$@"; do
  echo "== $id ($TIER) on patched tree:"
  LCM_REPO="$WT" VERIF_WORKERS=${VERIF_WORKERS:-14} ./check "$id" --tier "$TIER" 2>&1 | grep -v WARNING | grep -E "^\[|VIOLATION|INCONCLUSIVE|KNOWN|^   " | cut -c1-260 | head -${TRIAL_LINES:-12}
done
git -C /repo worktree remove --force "$WT"
rm -rf "$WT"
