#!/usr/bin/env python3
"""Own detection list (DESIGN.md section 7): deliberate property-breaking edits.

usage: tools/mutants.py [name ...]      (default: all)
Each edit is applied to a scratch worktree of /repo HEAD (outside /repo and /verif), the
pinned baseline must stay green, and the responsible quick checks must report VIOLATION.
Results are appended to tools/mutants_results.jsonl.
"""
import json
import os
import subprocess
import sys
import tempfile
import time

V = os.path.dirname(os.path.dirname(os.path.abspath(__file__)))

M = [
    # name, file, old, new, checks expected to catch it
    ("drop_beta", "model_functions.py", 'big_u = u + kwargs["params"]["beta"] * ccv', "big_u = u + ccv", ["C01", "C11", "C07"]),
    ("vf_not_advanced", "solve_brute.py", "            vf_arr=vf_arr,\n            state_indexers=state_indexers[period],", "            vf_arr=reversed_solution[0] if reversed_solution else None,\n            state_indexers=state_indexers[period],", ["C01", "C06"]),
    ("clip_bound", "ndimage.py", "jnp.clip(jnp.floor(coordinate), 0, input_size - 2)", "jnp.clip(jnp.floor(coordinate), 0, input_size - 1)", ["C15", "C14", "C01"]),
    ("swap_weights", "ndimage.py", "return [(lower_index, lower_weight), (lower_index + 1, upper_weight)]", "return [(lower_index, upper_weight), (lower_index + 1, lower_weight)]", ["C15", "C14", "C01"]),
    ("lin_coord_npoints", "grid_helpers.py", "    step_length = (stop - start) / (n_points - 1)\n    return (value - start) / step_length", "    step_length = (stop - start) / n_points\n    return (value - start) / step_length", ["C15", "C14", "C01"]),
    ("sim_vf_not_shifted", "simulate.py", "vf_arr_list = vf_arr_list[1:] + [None]", "vf_arr_list = vf_arr_list[:-1] + [None]", ["C02", "C06"]),
    ("sim_period_plus_one", "simulate.py", "_period=jnp.repeat(period, n_initial_states),", "_period=jnp.repeat(period + 1, n_initial_states),", ["C03", "C13"]),
    ("weights_dep_order_reversed", "input_processing/process_model.py", "        indices = args[:-1]\n", "        indices = args[:-1][::-1]\n", ["C01", "C03", "C04", "C07"]),
    ("key_not_advanced", "simulate.py", "    key = keys[0]\n    simulation_keys", "    simulation_keys", ["C04"]),
    ("same_key_all_agents", "random_choice.py", "    keys = jax.random.split(key, probs.shape[0])", "    keys = jax.numpy.tile(key, (probs.shape[0], 1))", ["C04"]),
    ("same_key_all_variables", "simulate.py", "simulation_keys = dict(zip(ids, keys[1:], strict=True))", "simulation_keys = dict(zip(ids, [keys[1]] * len(ids), strict=True))", ["C04"]),
    ("argmax_ties_last", "argmax.py", "        argmax = jnp.argmax(a, axis=-1)\n", "        argmax = a.shape[-1] - 1 - jnp.argmax(a[..., ::-1], axis=-1)\n", ["C18"]),
    ("period_column_tiled", "simulate.py", 'out["_period"] = jnp.repeat(jnp.arange(n_periods), n_initial_states)', 'out["_period"] = jnp.tile(jnp.arange(n_periods), n_initial_states)', ["C13"]),
    ("shock_template_dims_reversed", "input_processing/create_params_template.py", "            dimensions = (*dimensions_of_deps, len(grids[var]))", "            dimensions = (*dimensions_of_deps[::-1], len(grids[var]))", ["C07"]),
    ("data_scs_repeat_tile_swapped", "simulate.py", "            _combination_grid[name] = jnp.repeat(\n                state,\n                repeats=n_sc_product_combinations,\n            )", "            _combination_grid[name] = jnp.tile(\n                state,\n                n_sc_product_combinations,\n            )", ["C08", "C02", "C03"]),
    ("drop_overlap_rule", "user_model.py", "    if states_and_choices_overlap:", "    if False and states_and_choices_overlap:", ["C12"]),
    ("drop_start_ge_stop", "grids.py", "    if valid_start_type and valid_stop_type and start >= stop:", "    if valid_start_type and valid_stop_type and start > stop:", ["C16", "C12"]),
    ("interp_axes_reversed", "function_representation.py", "        coordinates = jnp.array([kwargs[var] for var in axis_names])", "        coordinates = jnp.array([kwargs[var] for var in axis_names][::-1])", ["C14", "C01"]),
    ("logsumexp_no_shift", "discrete_problem.py", "    exp = jnp.exp(a - segmax[segment_info[\"segment_ids\"]])", "    exp = jnp.exp(a)\n    segmax = jnp.zeros_like(segmax)", ["C20"]),
    ("feasibility_ignored_in_max", "entry_point.py", "        return u.max(where=f, initial=-jnp.inf)", "        return u.max()", ["C01"]),
    ("solve_period_plus_one", "model_functions.py", "            _next_state = next_state(\n                **states,\n                **choices,\n                _period=period,", "            _next_state = next_state(\n                **states,\n                **choices,\n                _period=period + 1,", ["C01"]),
    ("indexer_fill_zero", "state_space.py", "def create_indexers_and_segments(mask, n_sparse_states, fill_value=-1):", "def create_indexers_and_segments(mask, n_sparse_states, fill_value=0):", ["C17", "C14"]),
    ("params_merged_across_functions", "input_processing/process_model.py", '        return func(**_kwargs, **kwargs["params"][name])', '        _all = {k: v for d in kwargs["params"].values() if isinstance(d, dict) for k, v in d.items() if k in params[name]}\n        return func(**_kwargs, **_all)', ["C07", "C01"]),
    ("segment_argmax_first_row", "argmax.py", "    max_value_indices = max_value_mask * segment_argmax_ids", "    max_value_indices = segment_argmax_ids", ["C18", "C02"]),
    ("emax_scale_once", "discrete_problem.py", "        out = scale * jax.scipy.special.logsumexp(out / scale, axis=choice_axes)", "        out = jax.scipy.special.logsumexp(out / scale, axis=choice_axes)", ["C20"]),
    ("filter_mask_any_instead_of_all", "state_space.py", "        aggregator=jnp.logical_and,\n    )\n\n    # Apply dispatcher to get mask", "        aggregator=jnp.logical_or,\n    )\n\n    # Apply dispatcher to get mask", ["C17", "C01", "C05"]),
    ("targets_stale_params", "simulate.py", "    return target_func(params=params, **kwargs)", "    return target_func(params={k: ({p: 0.0 * v for p, v in d.items()} if isinstance(d, dict) and k != 'shocks' else d) for k, d in params.items()}, **kwargs)", ["C13"]),
    ("deepcopy_removed_and_mutation", "input_processing/process_model.py", "    raw_functions = deepcopy(model.functions)", "    raw_functions = model.functions", ["C09"]),
    ("spacemap_dense_first_ignored", "dispatchers.py", "    elif put_dense_first:", "    elif put_dense_first and len(dense_vars) > 1:", ["C19"]),
    ("log_coord_floor_to_round", "grid_helpers.py", "    rank_lower_gridpoint = jnp.floor(coordinate_in_linear_space)", "    rank_lower_gridpoint = jnp.round(coordinate_in_linear_space)", ["C15", "C14", "C01"]),
]


def run(name, file, old, new, checks):
    wt = tempfile.mkdtemp(prefix="mutant_", dir="/tmp")
    subprocess.run(["git", "-C", "/repo", "worktree", "add", "-f", wt, "HEAD"], capture_output=True, check=True)
    rec = {"name": name, "file": file, "expected": checks, "caught_by": [], "missed_by": [], "baseline": None}
    try:
        p = os.path.join(wt, "src", "lcm", file)
        s = open(p).read()
        if s.count(old) != 1:
            rec["error"] = f"pattern found {s.count(old)} times"
            return rec
        open(p, "w").write(s.replace(old, new))
        b = subprocess.run([os.path.join(V, "tools", "baseline.sh"), wt], capture_output=True, text=True)
        rec["baseline"] = b.stdout.strip().splitlines()[0] if b.stdout.strip() else "?"
        rec["baseline_ok"] = b.returncode == 0
        for c in checks:
            t0 = time.time()
            r = subprocess.run([os.path.join(V, "check"), c, "--tier", "quick"], capture_output=True, text=True,
                               env={**os.environ, "LCM_REPO": wt, "VERIF_WORKERS": os.environ.get("VERIF_WORKERS", "12")})
            n = r.stdout.count("VIOLATION property=")
            first = next((l.strip()[:200] for l in r.stdout.splitlines() if l.startswith("   ")), "")
            (rec["caught_by"] if r.returncode == 1 and n else rec["missed_by"]).append(c)
            rec.setdefault("detail", {})[c] = {"exit": r.returncode, "violating_cases": n, "first": first, "wall": round(time.time() - t0)}
    finally:
        subprocess.run(["git", "-C", "/repo", "worktree", "remove", "--force", wt], capture_output=True)
        subprocess.run(["rm", "-rf", wt])
    return rec


def main():
    sel = sys.argv[1:]
    out = os.path.join(V, "tools", "mutants_results.jsonl")
    for m in M:
        if sel and m[0] not in sel:
            continue
        rec = run(*m)
        print(json.dumps({k: rec.get(k) for k in ("name", "baseline_ok", "caught_by", "missed_by", "error")}), flush=True)
        with open(out, "a") as fh:
            fh.write(json.dumps(rec) + "\n")


if __name__ == "__main__":
    main()
