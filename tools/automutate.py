#!/usr/bin/env python3
"""Automatic mutation sweep (validation of the monitors, DESIGN.md section 7 / appendix A.4).

Generates small syntactic mutants of /repo/src/lcm (operator swaps, off-by-one constants,
slice bounds, boolean flips, reversed sequences, swapped call arguments) on lines that the
checks' workloads really execute (reach accounting of the evidence files), keeps those
that still pass the pinned 157-test baseline, and runs the quick checks that are mapped to
the mutated file against each survivor (LCM_REPO -> scratch worktree under /tmp; /repo is
never touched).  A surviving mutant that no check reports is either an *equivalent* mutant
(behaviour unchanged) or a gap; both are listed for inspection.

usage: tools/automutate.py generate            -> tools/automut/candidates.jsonl
       tools/automutate.py run [--n N] [--jobs J] [--seed S] [--files f1,f2]
                                               -> tools/automut/results.jsonl (appended)
       tools/automutate.py report
"""
import argparse
import ast
import concurrent.futures as cf
import glob
import hashlib
import json
import os
import random
import shutil
import subprocess
import sys
import tempfile
import time

V = os.path.dirname(os.path.dirname(os.path.abspath(__file__)))
OUT = os.path.join(V, "tools", "automut")
SRC = "/repo/src/lcm"

# which quick checks look at which file (first = most specific)
CHECKS = {
    "argmax.py": ["C18", "C02"],
    "discrete_problem.py": ["C20", "C18", "C01"],
    "dispatchers.py": ["C19", "C01"],
    "functools.py": ["C19", "C01"],
    "entry_point.py": ["C01", "C02", "C05", "C06"],
    "solve_brute.py": ["C01", "C05"],
    "model_functions.py": ["C01", "C02", "C07"],
    "function_representation.py": ["C14", "C01"],
    "ndimage.py": ["C15", "C14", "C01"],
    "grid_helpers.py": ["C15", "C14", "C01"],
    "grids.py": ["C16", "C12", "C01"],
    "next_state.py": ["C03", "C01", "C04"],
    "random_choice.py": ["C04", "C03"],
    "simulate.py": ["C02", "C03", "C13", "C08", "C04", "C06"],
    "state_space.py": ["C17", "C05", "C01"],
    "user_model.py": ["C12"],
    "input_processing/process_model.py": ["C01", "C07", "C12", "C03", "C09"],
    "input_processing/create_params_template.py": ["C07", "C12"],
    "input_processing/util.py": ["C01", "C05", "C12"],
    "interfaces.py": ["C01"],
}


def executed_lines():
    """Union over all evidence files of the lines some workload executed."""
    ex = {}
    for f in glob.glob(os.path.join(V, "evidence", "C*.json")):
        g = json.load(open(f))["coverage"].get("reach_gaps", {})
        for fn, d in g.items():
            ex.setdefault(fn, {"all_missing": None})
            s = set(d["not_executed"])
            cur = ex[fn]["all_missing"]
            ex[fn]["all_missing"] = s if cur is None else (cur & s)
    return {fn: d["all_missing"] or set() for fn, d in ex.items()}


class Gen(ast.NodeVisitor):
    def __init__(self, src, fn):
        self.src, self.fn, self.out = src, fn, []
        self.lines = src.split("\n")
        self.in_doc = set()

    def seg(self, node):
        return ast.get_source_segment(self.src, node)

    def replace(self, node, new, kind):
        l0, c0, l1, c1 = node.lineno, node.col_offset, node.end_lineno, node.end_col_offset
        if l0 != l1:
            return
        line = self.lines[l0 - 1]
        # col offsets are utf8 byte offsets; sources are ascii
        newline = line[:c0] + new + line[c1:]
        if newline != line:
            self.out.append({"file": self.fn, "line": l0, "old": line, "new": newline, "kind": kind})

    def visit_Compare(self, node):
        if len(node.ops) == 1 and node.lineno == node.end_lineno:
            op = node.ops[0]
            swaps = {ast.Lt: ["<="], ast.LtE: ["<"], ast.Gt: [">="], ast.GtE: [">"], ast.Eq: ["!="], ast.NotEq: ["=="],
                     ast.In: ["not in"], ast.NotIn: ["in"], ast.Is: ["is not"], ast.IsNot: ["is"]}
            for t, news in swaps.items():
                if isinstance(op, t):
                    left, right = self.seg(node.left), self.seg(node.comparators[0])
                    for n in news:
                        self.replace(node, f"{left} {n} {right}", "cmp")
        self.generic_visit(node)

    def visit_BinOp(self, node):
        swaps = {ast.Add: "-", ast.Sub: "+", ast.Mult: "/", ast.Div: "*", ast.FloorDiv: "/", ast.Mod: "//"}
        for t, n in swaps.items():
            if isinstance(node.op, t) and node.lineno == node.end_lineno:
                l, r = self.seg(node.left), self.seg(node.right)
                if l is not None and r is not None and not isinstance(node.left, ast.Constant) or not isinstance(getattr(node.left, "value", None), str):
                    self.replace(node, f"{l} {n} {r}", "binop")
        self.generic_visit(node)

    def visit_BoolOp(self, node):
        if node.lineno == node.end_lineno:
            parts = [self.seg(v) for v in node.values]
            j = " or " if isinstance(node.op, ast.And) else " and "
            self.replace(node, j.join(parts), "boolop")
        self.generic_visit(node)

    def visit_UnaryOp(self, node):
        if isinstance(node.op, ast.Not):
            self.replace(node, self.seg(node.operand), "not_removed")
        elif isinstance(node.op, ast.USub) and isinstance(node.operand, ast.Constant):
            return  # handled as constant by parent patterns
        self.generic_visit(node)

    def visit_Constant(self, node):
        v = node.value
        if isinstance(v, bool):
            self.replace(node, str(not v), "bool")
        elif isinstance(v, int) and -3 <= v <= 3:
            self.replace(node, str(v + 1), "const+1")
            if v >= 1:
                self.replace(node, str(v - 1), "const-1")

    def visit_Expr(self, node):
        if isinstance(node.value, ast.Constant) and isinstance(node.value.value, str):
            return  # docstring
        self.generic_visit(node)

    def visit_Subscript(self, node):
        s = node.slice
        if isinstance(s, ast.Slice) and node.lineno == node.end_lineno:
            base = self.seg(node.value)
            lo = self.seg(s.lower) if s.lower else ""
            hi = self.seg(s.upper) if s.upper else ""
            st = self.seg(s.step) if s.step else None
            if st is None:
                if lo:
                    self.replace(node, f"{base}[:{hi}]", "slice_drop_lower")
                if hi:
                    self.replace(node, f"{base}[{lo}:]", "slice_drop_upper")
            else:
                self.replace(node, f"{base}[{lo}:{hi}]", "slice_drop_step")
        self.generic_visit(node)

    def visit_Call(self, node):
        name = self.seg(node.func) or ""
        if node.lineno == node.end_lineno:
            if name in ("reversed", "sorted", "list", "tuple", "set") and len(node.args) == 1 and not node.keywords:
                if name in ("reversed", "sorted"):
                    self.replace(node, self.seg(node.args[0]), f"{name}_removed")
            if len(node.args) >= 2 and not any(isinstance(a, ast.Starred) for a in node.args):
                a = [self.seg(x) for x in node.args]
                a[0], a[1] = a[1], a[0]
                kw = [f"{k.arg}={self.seg(k.value)}" if k.arg else f"**{self.seg(k.value)}" for k in node.keywords]
                self.replace(node, f"{name}({', '.join(a + kw)})", "swap_args")
            swaps = {"jnp.repeat": "jnp.tile", "jnp.tile": "jnp.repeat", "jnp.floor": "jnp.ceil", "jnp.logical_and": "jnp.logical_or",
                     "jnp.maximum": "jnp.minimum", "jnp.minimum": "jnp.maximum", "jnp.cumsum": "jnp.cumprod", "jnp.max": "jnp.min",
                     "jnp.argmax": "jnp.argmin", "segment_max": "segment_min", "jnp.exp": "jnp.exp2", "jnp.log": "jnp.log2",
                     "min": "max", "max": "min", "any": "all", "all": "any"}
            if name in swaps and node.func.lineno == node.func.end_lineno:
                self.replace(node.func, swaps[name], "func_swap")
        self.generic_visit(node)

    def visit_Attribute(self, node):
        swaps = {"max": "min", "min": "max", "any": "all", "all": "any"}
        self.generic_visit(node)

    def visit_IfExp(self, node):
        if node.lineno == node.end_lineno:
            self.replace(node, f"{self.seg(node.orelse)} if {self.seg(node.test)} else {self.seg(node.body)}", "ifexp_swap")
        self.generic_visit(node)

    def visit_If(self, node):
        t = node.test
        if t.lineno == t.end_lineno:
            self.replace(t, f"not ({self.seg(t)})", "if_negated")
        self.generic_visit(node)

    def visit_Raise(self, node):
        return  # error paths: messages are not behaviour we mutate

    def visit_AnnAssign(self, node):
        if node.value is not None:
            self.visit(node.value)

    def visit_FunctionDef(self, node):
        for d in node.args.defaults + [d for d in node.args.kw_defaults if d is not None]:
            self.visit(d)
        for st in node.body:
            self.visit(st)


def generate():
    os.makedirs(OUT, exist_ok=True)
    missing = executed_lines()
    cands = []
    for fn in sorted(CHECKS):
        p = os.path.join(SRC, fn)
        src = open(p).read()
        g = Gen(src, fn)
        g.visit(ast.parse(src))
        miss = missing.get(fn, set())
        seen = set()
        for m in g.out:
            if m["line"] in miss:
                continue
            key = (m["line"], m["new"])
            if key in seen:
                continue
            seen.add(key)
            # must still compile
            lines = src.split("\n")
            lines[m["line"] - 1] = m["new"]
            try:
                compile("\n".join(lines), fn, "exec")
            except SyntaxError:
                continue
            m["id"] = hashlib.sha1(f"{fn}:{m['line']}:{m['new']}".encode()).hexdigest()[:10]
            cands.append(m)
    with open(os.path.join(OUT, "candidates.jsonl"), "w") as fh:
        for m in cands:
            fh.write(json.dumps(m) + "\n")
    by = {}
    for m in cands:
        by[m["file"]] = by.get(m["file"], 0) + 1
    print(len(cands), "candidates", by)


def baseline_ok(wt):
    """Pinned baseline on the mutated tree: all 157 stable tests must still pass."""
    out = tempfile.mkdtemp()
    try:
        env = {k: v for k, v in os.environ.items() if k != "LCM_VERIF"}
        env["PYTHONPATH"] = os.path.join(wt, "src")
        subprocess.run(["/venv/bin/python", "-m", "pytest", "-q", "-p", "no:cacheprovider", "--timeout=600",
                        "--continue-on-collection-errors", f"--junitxml={out}/j.xml"], cwd=wt, env=env,
                       capture_output=True, timeout=1500)
        import xml.etree.ElementTree as ET

        base = set(json.load(open("/root/.vp/BASELINE.json"))["stable_pass"])
        passed = set()
        for tc in ET.parse(f"{out}/j.xml").getroot().iter("testcase"):
            if not any(c.tag in ("failure", "error", "skipped") for c in tc):
                passed.add(f"{tc.get('classname')}::{tc.get('name')}")
        return len(base - passed) == 0
    except Exception:  # noqa: BLE001
        return False
    finally:
        shutil.rmtree(out, ignore_errors=True)


def run_one(m, cases, workers):
    wt = tempfile.mkdtemp(prefix="amut_", dir="/tmp")
    rec = {**m, "baseline": None, "caught_by": [], "held_by": [], "other": [], "t": time.time()}
    try:
        subprocess.run(["git", "-C", "/repo", "worktree", "add", "-f", wt, "HEAD"], capture_output=True, check=True)
        p = os.path.join(wt, "src", "lcm", m["file"])
        lines = open(p).read().split("\n")
        if lines[m["line"] - 1] != m["old"]:
            rec["baseline"] = "stale"
            return rec
        lines[m["line"] - 1] = m["new"]
        open(p, "w").write("\n".join(lines))
        ok = baseline_ok(wt)
        rec["baseline"] = "pass" if ok else "fail"
        if not ok:
            return rec
        for cid in CHECKS[m["file"]]:
            env = {**os.environ, "LCM_REPO": wt, "VERIF_WORKERS": str(workers), "VERIF_REACH": "0"}
            cmd = [os.path.join(V, "check"), cid, "--tier", "quick"]
            if cases:
                cmd += ["--cases", str(cases)]
            r = subprocess.run(cmd, cwd=V, env=env, capture_output=True, text=True, timeout=3600)
            if "VIOLATION" in r.stdout:
                rec["caught_by"].append(cid)
                break  # one detection is enough for the sweep
            elif r.returncode == 0:
                rec["held_by"].append(cid)
            else:
                tail = [l for l in r.stdout.splitlines() if l.startswith("INCONCLUSIVE")]
                rec["other"].append([cid, r.returncode, (tail[0][:300] if tail else r.stdout[-300:])])
    except Exception as e:  # noqa: BLE001
        rec["error"] = repr(e)[:300]
    finally:
        subprocess.run(["git", "-C", "/repo", "worktree", "remove", "--force", wt], capture_output=True)
        shutil.rmtree(wt, ignore_errors=True)
        rec["wall"] = round(time.time() - rec.pop("t"), 1)
    return rec


def run(a):
    cands = [json.loads(l) for l in open(os.path.join(OUT, "candidates.jsonl"))]
    done = set()
    rp = os.path.join(OUT, "results.jsonl")
    if os.path.exists(rp):
        done = {json.loads(l)["id"] for l in open(rp)}
    if a.files:
        fs = set(a.files.split(","))
        cands = [m for m in cands if m["file"] in fs]
    cands = [m for m in cands if m["id"] not in done]
    random.Random(a.seed).shuffle(cands)
    # stratify: round-robin over files
    by = {}
    for m in cands:
        by.setdefault(m["file"], []).append(m)
    order = []
    while any(by.values()) and len(order) < a.n:
        for f in sorted(by):
            if by[f] and len(order) < a.n:
                order.append(by[f].pop())
    print("running", len(order), "mutants", flush=True)
    with cf.ThreadPoolExecutor(max_workers=a.jobs) as ex:
        futs = [ex.submit(run_one, m, a.cases, a.workers) for m in order]
        for f in cf.as_completed(futs):
            r = f.result()
            with open(rp, "a") as fh:
                fh.write(json.dumps(r) + "\n")
            print(r["id"], r["file"], r["line"], r["kind"], r["baseline"], "caught:", r["caught_by"], "held:", r["held_by"], r.get("other"), flush=True)


def report():
    rs = [json.loads(l) for l in open(os.path.join(OUT, "results.jsonl"))]
    n = len(rs)
    surv = [r for r in rs if r["baseline"] == "pass"]
    caught = [r for r in surv if r["caught_by"]]
    missed = [r for r in surv if not r["caught_by"]]
    print(f"{n} mutants tried; {len(surv)} keep the 157 baseline tests green; {len(caught)} of these reported by a check; {len(missed)} not reported")
    for r in missed:
        print(f"  NOT REPORTED {r['id']} {r['file']}:{r['line']} [{r['kind']}] held={r['held_by']} other={r.get('other')}\n      - {r['old'].strip()}\n      + {r['new'].strip()}")


if __name__ == "__main__":
    ap = argparse.ArgumentParser()
    ap.add_argument("cmd", choices=["generate", "run", "report"])
    ap.add_argument("--n", type=int, default=40)
    ap.add_argument("--jobs", type=int, default=4)
    ap.add_argument("--workers", type=int, default=4)
    ap.add_argument("--cases", type=int, default=0)
    ap.add_argument("--seed", type=int, default=0)
    ap.add_argument("--files", default="")
    a = ap.parse_args()
    {"generate": generate, "run": lambda: run(a), "report": report}[a.cmd]()
