#!/usr/bin/env python3
"""Union of the reach accounting of all evidence files: executable lines of /repo/src/lcm
that NO check executed (gaps point at behaviour no workload drives)."""
import glob, json, os
V = os.path.dirname(os.path.dirname(os.path.abspath(__file__)))
miss, ex = {}, {}
for f in sorted(glob.glob(os.path.join(V, "evidence", "C*.json"))):
    g = json.load(open(f))["coverage"].get("reach_gaps", {})
    for fn, d in g.items():
        s = set(d["not_executed"])
        miss[fn] = s if fn not in miss else miss[fn] & s
        ex[fn] = d["executable"]
for fn in sorted(miss):
    print(f"{fn}: {ex[fn]-len(miss[fn])}/{ex[fn]} executed; never: {sorted(miss[fn])}")
