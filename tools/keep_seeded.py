#!/usr/bin/env python3
"""Copy a confirmed sub-agent change into /verif/seeded/<tag>/ with meta.json.
usage: tools/keep_seeded.py <tag> <property> '<needs>' '<caught_by csv>' '<missed_by csv>' ['<note>']"""
import json, os, shutil, sys
tag, prop, needs, caught, missed = sys.argv[1:6]
note = sys.argv[6] if len(sys.argv) > 6 else ""
src = f"/tmp/mut/out_{tag}"
dst = os.path.join(os.path.dirname(os.path.dirname(os.path.abspath(__file__))), "seeded", tag)
os.makedirs(dst, exist_ok=True)
for f in ("patch.diff", "demo.py", "notes.md"):
    if os.path.exists(os.path.join(src, f)):
        shutil.copy(os.path.join(src, f), os.path.join(dst, f))
meta = {
    "tag": tag, "breaks_property": prop, "origin": "independent sub-agent given only the property text and a scratch worktree",
    "needs_to_manifest": needs,
    "confirmed_by": "tools/confirm_seeded.sh: demo.py exits 0 on the unchanged tree and non-zero with patch.diff applied; tools/baseline.sh on the patched tree prints 157/157",
    "checks_run": "quick tier with LCM_REPO pointing at a scratch worktree of /repo HEAD + patch (tools/confirm_seeded.sh)",
    "caught_by": [c for c in caught.split(",") if c], "missed_by": [c for c in missed.split(",") if c], "note": note,
}
json.dump(meta, open(os.path.join(dst, "meta.json"), "w"), indent=1)
print("kept", dst)
