"""Golden table for C09: fresh function objects in a fresh process (own PYTHONHASHSEED).

usage: python -m vlib.golden <spec.json> <out.npz>
spec: {"desc":..., "solve_args":[params...], "sim_args":[{"params":..,"init":..,"seed":..}]}
"""
import json
import sys

import numpy as np


def frame_to_arrays(df, prefix):
    out = {f"{prefix}__index": np.asarray([list(i) for i in df.index.tolist()], dtype=float)}
    for c in sorted(df.columns):
        out[f"{prefix}__col__{c}"] = np.asarray(df[c].values, dtype=float)
    return out


def typed_init(a):
    """Initial states of an argument set; float columns in the requested precision."""
    init = {k: np.asarray(v) for k, v in a["init"].items()}
    if a.get("init_dtype") == "float32":
        init = {k: (v.astype(np.float32) if np.issubdtype(v.dtype, np.floating) else v) for k, v in init.items()}
    return init


def main():
    from vlib import bootstrap, dsl, pipeline, simcheck  # noqa: F401

    with open(sys.argv[1]) as fh:
        spec = json.load(fh)
    desc = spec["desc"]
    out = {}
    for i, p in enumerate(spec["solve_args"]):
        model = dsl.build_lcm_model(desc)  # fresh model + fresh function object per entry
        f, _ = pipeline.get_lcm_function(model, "solve", jit=bool(spec.get("jit", True)))
        sol = f(dsl.lcm_params(p))
        for t, a in enumerate(sol):
            out[f"solve{i}__t{t}"] = np.asarray(a, dtype=float)
    for i, a in enumerate(spec["sim_args"]):
        model = dsl.build_lcm_model(desc)
        f, _ = pipeline.get_lcm_function(model, "solve_and_simulate")
        init = typed_init(a)
        df = simcheck.simulate_once(f, a["params"], init, None, seed=int(a["seed"]))
        out.update(frame_to_arrays(df, f"sim{i}"))
    np.savez(sys.argv[2], **out)


if __name__ == "__main__":
    main()
