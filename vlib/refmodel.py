"""Independent executable reference model (pure numpy, float64).

Implements the *wording* of the properties; imports nothing from lcm, dags or jax.
See DESIGN.md 4.4.
"""
import itertools
import math

import numpy as np

from vlib.dsl import make_funcs, ref_grid


# --------------------------------------------------------------------------------------
# grids, coordinates, interpolation
# --------------------------------------------------------------------------------------
def ref_coord(spec, grid, value):
    """Generalised coordinate of `value` on a continuous grid."""
    value = np.asarray(value, dtype=float)
    n = spec["n"]
    if spec["kind"] == "lin":
        return (value - spec["start"]) / ((spec["stop"] - spec["start"]) / (n - 1))
    idx = np.clip(np.searchsorted(grid, value, side="right") - 1, 0, n - 2)
    lo, hi = grid[idx], grid[idx + 1]
    return idx + (value - lo) / (hi - lo)


def ref_map_coordinates(arr, coords):
    """Multilinear interpolation / linear extrapolation; arr.ndim == len(coords)."""
    arr = np.asarray(arr, dtype=float)
    coords = np.broadcast_arrays(*[np.asarray(c, dtype=float) for c in coords])
    lows, ws = [], []
    for c, n in zip(coords, arr.shape):
        lo = np.clip(np.floor(c), 0, n - 2).astype(int)
        lows.append(lo)
        ws.append(c - lo)
    out = 0.0
    for corner in itertools.product((0, 1), repeat=arr.ndim):
        w = 1.0
        idx = []
        for d, b in enumerate(corner):
            w = w * (ws[d] if b else (1 - ws[d]))
            idx.append(lows[d] + b)
        # a corner with weight exactly 0 does not contribute (also when its entry is infinite:
        # "interpolating at integer coordinates returns the array entries")
        with np.errstate(invalid="ignore"):
            out = out + np.where(w == 0, 0.0, w * arr[tuple(idx)])
    return out


# --------------------------------------------------------------------------------------
# the reference model of a descriptor
# --------------------------------------------------------------------------------------
class Ref:
    def __init__(self, desc):
        self.desc = desc
        self.T = desc["n_periods"]
        self.funcs = make_funcs(desc, np)
        self.fargs = {name: list(args) for name, args, _ in desc["functions"]}
        self.states = [k for k, _ in desc["states"]]
        self.choices = [k for k, _ in desc["choices"]]
        self.spec = dict(desc["states"]) | dict(desc["choices"])
        self.grid = {k: ref_grid(v) for k, v in self.spec.items()}
        self.stoch = list(desc.get("stochastic", []))
        self.scalar_functions = set(desc.get("scalar_functions", []))
        self.filters = [n for n in self.fargs if n.endswith("_filter")]
        self.constraints = [n for n in self.fargs if n.endswith("_constraint")]
        sparse = set()
        for f in self.filters:
            sparse |= self._ancestors(f)
        self.sparse = {v for v in sparse if v in self.spec}
        S, C = self.states, self.choices
        isd = self.is_disc
        self.order = (
            [v for v in S if v in self.sparse]
            + [v for v in C if v in self.sparse]
            + [v for v in S if v not in self.sparse and isd(v)]
            + [v for v in C if v not in self.sparse and isd(v)]
            + [v for v in S if v not in self.sparse and not isd(v)]
            + [v for v in C if v not in self.sparse and not isd(v)]
        )
        self.state_order = [v for v in self.order if v in S]
        self.choice_order = [v for v in self.order if v in C]
        self.sparse_states = [v for v in self.state_order if v in self.sparse]
        self.sparse_choices = [v for v in self.choice_order if v in self.sparse]
        self.sparse_vars = self.sparse_states + self.sparse_choices
        self.dense_disc_states = [
            v for v in self.state_order if v not in self.sparse and isd(v)
        ]
        self.dense_disc_choices = [
            v for v in self.choice_order if v not in self.sparse and isd(v)
        ]
        self.cont_states = [v for v in self.state_order if not isd(v)]
        self.cont_choices = [v for v in self.choice_order if not isd(v)]
        self.sshape = tuple(len(self.grid[s]) for s in self.state_order)
        self.cshape = tuple(len(self.grid[c]) for c in self.choice_order)
        self._fm_cache = {}

    # -- structure -----------------------------------------------------------------
    def is_disc(self, v):
        return self.spec[v]["kind"] == "disc"

    def _ancestors(self, name):
        out = set()
        for a in self.fargs[name]:
            out.add(a)
            if a in self.fargs:
                out |= self._ancestors(a)
        return out

    def param_template(self):
        """Expected template: {fname: sorted free args}, shocks shapes, beta."""
        variables = set(self.fargs) | set(self.spec) | {"_period"}
        t = {"beta": None}
        for name, args in self.fargs.items():
            t[name] = sorted(set(args) - variables)
        shocks = {}
        for name in self.stoch:
            s = name[len("next_"):]
            dims = [
                self.T if d == "_period" else self.spec[d]["n"]
                for d in self.fargs[name]
            ]
            shocks[s] = tuple(dims) + (self.spec[s]["n"],)
        if shocks:
            t["shocks"] = shocks
        return t

    # -- evaluation of user functions ----------------------------------------------
    def evaluate(self, name, env, params, cache):
        if name in cache:
            return cache[name]
        kwargs = {}
        for a in self.fargs[name]:
            if a in env:
                kwargs[a] = env[a]
            elif a in self.fargs:
                kwargs[a] = self.evaluate(a, env, params, cache)
            else:
                kwargs[a] = params[name][a]
        with np.errstate(all="ignore"):
            if name in self.scalar_functions:
                # written for scalars: evaluate element by element (what lcm's vmap does)
                ks = list(kwargs)
                arrs = np.broadcast_arrays(*[np.asarray(kwargs[k]) for k in ks]) if ks else []
                if ks and arrs[0].ndim > 0:
                    flat = [a.reshape(-1) for a in arrs]
                    out = np.array([self.funcs[name](**{k: f[i] for k, f in zip(ks, flat)}) for i in range(flat[0].size)])
                    cache[name] = out.reshape(arrs[0].shape)
                else:
                    cache[name] = self.funcs[name](**kwargs)
            else:
                cache[name] = self.funcs[name](**kwargs)
        return cache[name]

    # -- filters / spaces ------------------------------------------------------------
    def filter_mask(self, t):
        """Boolean array over (sparse states..., sparse choices...) for period t."""
        if t in self._fm_cache:
            return self._fm_cache[t]
        sv = self.sparse_vars
        if not sv:
            self._fm_cache[t] = None
            return None
        env = {"_period": t}
        for i, v in enumerate(sv):
            sh = [1] * len(sv)
            sh[i] = len(self.grid[v])
            env[v] = self.grid[v].reshape(sh)
        shape = tuple(len(self.grid[v]) for v in sv)
        m = np.ones(shape, bool)
        cache = {}
        for f in self.filters:
            m = m & np.broadcast_to(
                np.asarray(self.evaluate(f, env, {}, cache), dtype=bool), shape
            )
        self._fm_cache[t] = m
        return m

    def feas_state(self, t):
        """Boolean over sparse-state dims: has >= 1 filter-passing choice in period t."""
        if not self.sparse_states:
            return None
        m = self.filter_mask(t)
        ns = len(self.sparse_states)
        return m.any(axis=tuple(range(ns, m.ndim))) if m.ndim > ns else m

    def expected_space(self, t):
        """Expected stored combinations / indexer / segments for period t (C17)."""
        m = self.filter_mask(t)
        if m is None:
            return None
        ns = len(self.sparse_states)
        fs = self.feas_state(t) if ns else None
        combos = np.argwhere(m)  # row-major
        stored = {
            v: self.grid[v][combos[:, i]] for i, v in enumerate(self.sparse_vars)
        }
        out = {"stored": stored, "n": len(combos)}
        if ns:
            rank = np.full(fs.shape, -1)
            rank[fs] = np.arange(int(fs.sum()))
            out["indexer"] = rank
            out["segment_ids"] = rank[tuple(combos[:, i] for i in range(ns))]
            out["num_segments"] = int(fs.sum())
        return out

    def to_lcm_layout(self, V, t):
        fs = self.feas_state(t)
        return V if fs is None else V[fs]

    def from_lcm_layout(self, A, t):
        fs = self.feas_state(t)
        A = np.asarray(A, dtype=float)
        if fs is None:
            return A
        full = np.full(self.sshape, np.nan)
        full[fs] = A
        return full

    def lcm_shape(self, t):
        fs = self.feas_state(t)
        if fs is None:
            return self.sshape
        return (int(fs.sum()),) + self.sshape[len(self.sparse_states):]

    # -- value of next states ----------------------------------------------------------
    def lookup(self, Vfull, nxt, shape):
        """V(next state) for arrays of next states; returns (values, bad flags)."""
        bad = np.zeros(shape, bool)
        idx = []
        lows, ws = [], []
        for s in self.state_order:
            v = np.broadcast_to(np.asarray(nxt[s]), shape)
            n = self.spec[s]["n"]
            if self.is_disc(s):
                vi = np.asarray(np.rint(v), dtype=np.int64)
                b = (vi < 0) | (vi >= n) | (np.abs(v - vi) > 0)
                bad |= b
                idx.append(np.clip(vi, 0, n - 1))
            else:
                v = np.asarray(v, dtype=float)
                if self.spec[s]["kind"] == "log":
                    g = self.grid[s]
                    tol = 1e-12 * g[-1]
                    bad |= ~((v >= g[0] - tol) & (v <= g[-1] + tol))
                    v = np.clip(v, g[0], g[-1])
                with np.errstate(all="ignore"):
                    c = ref_coord(self.spec[s], self.grid[s], v)
                bad |= ~np.isfinite(c)
                c = np.where(np.isfinite(c), c, 0.0)
                lo = np.clip(np.floor(c), 0, n - 2).astype(int)
                lows.append(lo)
                ws.append(c - lo)
        k = len(lows)
        out = 0.0
        for corner in itertools.product((0, 1), repeat=k):
            w = 1.0
            cidx = []
            for d, b in enumerate(corner):
                w = w * (ws[d] if b else (1 - ws[d]))
                cidx.append(lows[d] + b)
            with np.errstate(invalid="ignore"):
                out = out + np.where(w == 0, 0.0, w * Vfull[tuple(idx + cidx)])
        return np.broadcast_to(out, shape), bad, idx[: len(self.sparse_states)]

    def q_on(self, env, period, params, Vnext_full, feas_next=None):
        """Q = u + beta E V' masked to -inf where a filter/constraint fails.

        env: {variable: array} broadcastable. Returns Q, ok, info where info has
        elementwise ``bad`` (a positive-probability successor of a feasible element is
        not a valid state of next period's space) and ``oob_any`` (a discrete next label
        outside its range anywhere, feasible or not).
        """
        env = dict(env)
        env["_period"] = period
        cache = {}
        shape = np.broadcast_shapes(*[np.shape(v) for v in env.values()])
        u = np.broadcast_to(
            np.asarray(self.evaluate("utility", env, params, cache), dtype=float), shape
        )
        ok = np.ones(shape, bool)
        for f in self.filters + self.constraints:
            ok = ok & np.broadcast_to(
                np.asarray(self.evaluate(f, env, params, cache), dtype=bool), shape
            )
        info = {"bad": np.zeros(shape, bool), "oob_any": False}
        if Vnext_full is None:
            Q = u
        else:
            det = {}
            for s in self.states:
                if f"next_{s}" not in self.stoch:
                    det[s] = np.broadcast_to(
                        np.asarray(self.evaluate(f"next_{s}", env, params, cache)),
                        shape,
                    )
            stoch_states = [s for s in self.states if f"next_{s}" in self.stoch]
            ev = np.zeros(shape)
            for labels in itertools.product(
                *[range(self.spec[s]["n"]) for s in stoch_states]
            ):
                w = np.ones(shape)
                nxt = dict(det)
                for s, lab in zip(stoch_states, labels):
                    deps = self.fargs[f"next_{s}"]
                    didx = tuple(
                        np.broadcast_to(np.asarray(env[d]), shape).astype(int)
                        for d in deps
                    )
                    P = np.asarray(params["shocks"][s], dtype=float)
                    w = w * P[didx + (lab,)]
                    nxt[s] = np.full(shape, lab)
                vals, bad, sidx = self.lookup(Vnext_full, nxt, shape)
                if feas_next is not None and self.sparse_states:
                    bad = bad | ~feas_next[tuple(sidx)]
                info["bad"] |= ok & (w > 0) & bad
                if bad.any():
                    for s in self.state_order:
                        if self.is_disc(s):
                            v = np.broadcast_to(np.asarray(nxt[s]), shape)
                            if ((v < 0) | (v >= self.spec[s]["n"])).any():
                                info["oob_any"] = True
                with np.errstate(all="ignore"):
                    ev = ev + np.where(w > 0, w * vals, 0.0)
            with np.errstate(all="ignore"):
                Q = u + params["beta"] * ev
        with np.errstate(all="ignore"):
            Qm = np.where(ok, Q, -np.inf)
        return Qm, ok, info

    # -- full solution -----------------------------------------------------------------
    def grid_env(self):
        allv = self.state_order + self.choice_order
        env = {}
        for i, v in enumerate(allv):
            sh = [1] * len(allv)
            sh[i] = len(self.grid[v])
            env[v] = self.grid[v].reshape(sh)
        return env

    def solve(self, params, keep_q=False):
        """Backward induction on the full product grid.

        Returns dict with V (list of full arrays), screening info per period.
        """
        T = self.T
        Vs = [None] * T
        Qs = [None] * T
        info = [None] * T
        V_next, feas_next = None, None
        ns, nc = len(self.sshape), len(self.cshape)
        for t in reversed(range(T)):
            env = self.grid_env()
            Q, ok, inf = self.q_on(env, t, params, V_next, feas_next)
            Q = np.broadcast_to(Q, self.sshape + self.cshape)
            ok = np.broadcast_to(ok, self.sshape + self.cshape)
            caxes = tuple(range(ns, ns + nc))
            Qn = np.where(np.isnan(Q), -np.inf, Q)
            V = Qn.max(axis=caxes) if caxes else Qn
            nanq = bool(np.isnan(Q[ok]).any())
            fs = self.feas_state(t)
            in_space = (
                np.ones(self.sshape, bool)
                if fs is None
                else np.broadcast_to(
                    fs.reshape(fs.shape + (1,) * (ns - fs.ndim)), self.sshape
                )
            )
            has_choice = ok.any(axis=caxes) if caxes else ok
            binding = bool((~ok).any())
            bad = np.broadcast_to(inf["bad"], self.sshape + self.cshape)
            bad_state = bad.any(axis=caxes) if caxes else bad
            info[t] = {
                "bad_transition": bool((bad_state & in_space).any()),
                "oob_any": inf["oob_any"],
                "no_choice": bool((in_space & ~has_choice).any()),
                "nan_q": nanq,
                "nonfinite_v": bool((~np.isfinite(V[in_space])).any()),
                "only_neg_inf_v": bool(np.all(np.isfinite(V[in_space]) | np.isneginf(V[in_space]))),
                "binding": binding,
                "n_in_space": int(in_space.sum()),
                "empty_space": bool(fs is not None and not fs.any()),
            }
            Vs[t] = V
            if keep_q:
                Qs[t] = Q
            V_next, feas_next = V, fs
        return {"V": Vs, "Q": Qs, "info": info}

    def supported(self, sol, allow_no_choice_last=False, allow_neg_inf_values=False):
        """Screening: the model is in the scope of the properties (DESIGN 4.3)."""
        reasons = []
        for t, i in enumerate(sol["info"]):
            if i["bad_transition"]:
                reasons.append(f"t{t}:transition_into_excluded_or_out_of_range")
            if i["empty_space"]:
                reasons.append(f"t{t}:empty_space")
            if i["nan_q"]:
                reasons.append(f"t{t}:nan_at_feasible_choice")
            if i["no_choice"] and not (allow_no_choice_last and t == self.T - 1):
                reasons.append(f"t{t}:state_without_feasible_choice")
            elif i["nonfinite_v"] and not (allow_no_choice_last and t == self.T - 1) and not (allow_neg_inf_values and i["only_neg_inf_v"]):
                reasons.append(f"t{t}:nonfinite_value")
        return (not reasons), reasons

    # -- simulated rows --------------------------------------------------------------------
    def q_rows(self, st, t, params, Vnext_full):
        """Q over all grid choice combinations for N agents at states `st`."""
        N = len(next(iter(st.values()))) if st else 1
        nC = len(self.choice_order)
        env = {}
        for s in self.states:
            env[s] = np.asarray(st[s]).reshape((N,) + (1,) * nC)
        for j, c in enumerate(self.choice_order):
            sh = [1] * (nC + 1)
            sh[j + 1] = len(self.grid[c])
            env[c] = self.grid[c].reshape(sh)
        if not env:
            env = {"__dummy__": np.zeros((N,))}
        Q, ok, inf = self.q_on(env, t, params, Vnext_full, None)
        full = (N,) + self.cshape
        return np.broadcast_to(Q, full), np.broadcast_to(ok, full), inf

    def q_at(self, st, ch, t, params, Vnext_full):
        N = len(next(iter(st.values())))
        env = {s: np.asarray(st[s]) for s in self.states}
        env.update({c: np.asarray(ch[c]) for c in self.choices})
        Q, ok, _ = self.q_on(env, t, params, Vnext_full, None)
        return np.broadcast_to(Q, (N,)), np.broadcast_to(ok, (N,))

    def rows_in_scope(self, st, t):
        """Agent rows whose state is a state of period t's space."""
        N = len(next(iter(st.values())))
        inr = np.ones(N, bool)
        for s in self.states:
            v = np.asarray(st[s])
            sp = self.spec[s]
            if sp["kind"] == "disc":
                inr &= (v >= 0) & (v < sp["n"]) & (v == np.rint(v))
            elif sp["kind"] == "log":
                g = self.grid[s]
                inr &= (v >= g[0]) & (v <= g[-1])
            else:
                inr &= np.isfinite(np.asarray(v, dtype=float))
        fs = self.feas_state(t)
        if fs is not None:
            idx = tuple(
                np.clip(np.asarray(st[s]).astype(int), 0, self.spec[s]["n"] - 1)
                for s in self.sparse_states
            )
            inr &= fs[idx]
        return inr

    def next_states(self, st, ch, t, params):
        """Deterministic next states (dict) at reported rows."""
        env = {s: np.asarray(st[s]) for s in self.states}
        env.update({c: np.asarray(ch[c]) for c in self.choices})
        env["_period"] = t
        N = len(next(iter(st.values())))
        cache = {}
        out = {}
        for s in self.states:
            if f"next_{s}" not in self.stoch:
                out[s] = np.broadcast_to(
                    np.asarray(self.evaluate(f"next_{s}", env, params, cache)), (N,)
                )
        return out

    def stoch_row_probs(self, s, st, ch, t, params):
        """Transition row (N, n_labels) of stochastic state s at reported rows."""
        N = len(next(iter(st.values())))
        env = {k: np.asarray(v) for k, v in st.items()}
        env.update({k: np.asarray(v) for k, v in ch.items()})
        env["_period"] = np.full(N, t)
        deps = self.fargs[f"next_{s}"]
        idx = tuple(np.broadcast_to(env[d], (N,)).astype(int) for d in deps)
        P = np.asarray(params["shocks"][s], dtype=float)
        return P[idx]


def close(a, b, tol):
    a = np.asarray(a, dtype=float)
    b = np.asarray(b, dtype=float)
    with np.errstate(all="ignore"):
        same_inf = np.isinf(a) & np.isinf(b) & (np.sign(a) == np.sign(b))
        return same_inf | ((np.abs(a - b) <= tol * (1 + np.abs(b))) & np.isfinite(a) & np.isfinite(b))


def maxdev(a, b):
    a = np.asarray(a, dtype=float)
    b = np.asarray(b, dtype=float)
    with np.errstate(all="ignore"):
        d = np.abs(a - b) / (1 + np.abs(b))
        same_inf = np.isinf(a) & np.isinf(b) & (np.sign(a) == np.sign(b))
        d = np.where(same_inf, 0.0, d)
        d = np.where(np.isnan(d), np.inf, d)
    return float(d.max()) if d.size else 0.0
