"""Worker process: runs a batch of cases of one check under the monitors.

usage: python -m vlib.worker <module> <batch.json> <out.jsonl>
"""
import importlib
import json
import os
import sys
import time
import traceback


def _install_reach():
    """W7: which lines of /repo/src/lcm did this worker really execute."""
    hits = {}
    mon = getattr(sys, "monitoring", None)
    if mon is None:
        return hits, lambda: None
    from vlib import bootstrap

    root = os.path.join(bootstrap.SRC, "lcm") + os.sep
    tool = mon.COVERAGE_ID
    try:
        mon.use_tool_id(tool, "verif-reach")
    except ValueError:
        return hits, lambda: None

    def on_line(code, line):
        fn = code.co_filename
        if fn.startswith(root):
            hits.setdefault(fn[len(root):], set()).add(line)
        return mon.DISABLE

    mon.register_callback(tool, mon.events.LINE, on_line)
    mon.set_events(tool, mon.events.LINE)

    def stop():
        try:
            mon.set_events(tool, 0)
            mon.free_tool_id(tool)
        except Exception:  # noqa: BLE001
            pass

    return hits, stop


def main():
    mod_name, inp, out = sys.argv[1:4]
    with open(inp) as fh:
        batch = json.load(fh)
    fo = open(out, "w")

    def emit(rec):
        fo.write(json.dumps(rec, default=_default) + "\n")
        fo.flush()

    try:
        from vlib import bootstrap  # noqa: F401
    except Exception:  # noqa: BLE001
        # the repository cannot even be imported: every case is a harness-level failure
        err = traceback.format_exc()
        for c in batch:
            emit({"id": c["id"], "status": "import_error", "error": err[-1500:]})
        return 0
    hits, stop = _install_reach() if os.environ.get("VERIF_REACH", "1") == "1" else ({}, lambda: None)
    mod = importlib.import_module(mod_name)
    for c in batch:
        t0 = time.time()
        try:
            r = mod.run_case(c)
        except Exception:  # noqa: BLE001 - a harness bug, never a verdict
            r = {"status": "harness_error", "error": traceback.format_exc()[-2500:]}
        if r.get("violations"):
            try:  # make the replay independent of later changes to the generator
                from vlib import pipeline

                if pipeline.LAST["desc"] is not None:
                    r["witness_desc"] = pipeline.LAST["desc"]
                    r["witness_features"] = pipeline.LAST["realised"]
            except Exception:  # noqa: BLE001
                pass
        try:
            from vlib import pipeline as _p

            _p.LAST["desc"] = None
        except Exception:  # noqa: BLE001
            pass
        r["id"] = c["id"]
        r["wall"] = round(time.time() - t0, 2)
        emit(r)
    stop()
    emit({"id": "__reach__", "status": "meta", "reach": {k: sorted(v) for k, v in hits.items()}})
    fo.close()
    return 0


def _default(o):
    try:
        import numpy as np

        if isinstance(o, np.generic):
            return o.item()
        if isinstance(o, np.ndarray):
            return o.tolist()
    except Exception:  # noqa: BLE001
        pass
    return str(o)


if __name__ == "__main__":
    sys.exit(main())
