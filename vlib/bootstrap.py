"""Process bootstrap for every worker / check process.

* puts the *current working tree* of the repository (``$LCM_REPO/src``, default
  ``/repo/src``) first on ``sys.path`` -- nothing is installed or cached, so an edited
  tree is what gets executed;
* installs the ``jax.util`` compatibility shim (only if ``import jax.util`` fails);
* sets the process-global x64 switch from ``VERIF_X64`` (default on);
* caps XLA's intra-op threads (one worker process per core is the parallelism);
* appends ``/verif/.deps`` (icontract, git-ignored, installed by setup / the checks)
  to the *end* of ``sys.path`` so it can never shadow the repo interpreter's packages.
"""
import os
import sys
import types

VERIF = os.path.dirname(os.path.dirname(os.path.abspath(__file__)))
REPO = os.environ.get("LCM_REPO", "/repo")
SRC = os.path.join(REPO, "src")
GUARD = "LCM_VERIF"

os.environ.setdefault(
    "XLA_FLAGS",
    "--xla_cpu_multi_thread_eigen=false intra_op_parallelism_threads=1",
)
os.environ.setdefault("JAX_PLATFORMS", "cpu")
os.environ.setdefault("OMP_NUM_THREADS", "1")
os.environ.setdefault("OPENBLAS_NUM_THREADS", "1")
os.environ[GUARD] = "1"

if VERIF not in sys.path:
    sys.path.insert(0, VERIF)
if SRC in sys.path:
    sys.path.remove(SRC)
sys.path.insert(0, SRC)
_deps = os.path.join(VERIF, ".deps")
if os.path.isdir(_deps) and _deps not in sys.path:
    sys.path.append(_deps)

import warnings  # noqa: E402

warnings.filterwarnings("ignore")

import jax  # noqa: E402

try:  # pragma: no cover - depends on the installed jax
    import jax.util  # noqa: F401

    SHIM_ACTIVE = False
except Exception:  # noqa: BLE001
    _m = types.ModuleType("jax.util")

    def safe_zip(*args):
        args = [list(a) for a in args]
        n = len(args[0])
        for a in args[1:]:
            if len(a) != n:
                raise ValueError("safe_zip: length mismatch")
        return list(zip(*args))

    def unzip2(xys):
        xs, ys = [], []
        for x, y in xys:
            xs.append(x)
            ys.append(y)
        return tuple(xs), tuple(ys)

    _m.safe_zip = safe_zip
    _m.unzip2 = unzip2
    sys.modules["jax.util"] = _m
    jax.util = _m
    SHIM_ACTIVE = True

X64 = os.environ.get("VERIF_X64", "1") == "1"
jax.config.update("jax_enable_x64", X64)

import lcm  # noqa: E402

if not os.path.abspath(lcm.__file__).startswith(os.path.abspath(SRC)):
    raise RuntimeError(f"lcm imported from {lcm.__file__}, expected under {SRC}")

TOL = 1e-9 if X64 else 1e-3  # single precision: deviations up to 1.2e-4 were observed on the unchanged tree (thorough sweep)


def have_icontract():
    try:
        import icontract  # noqa: F401

        return True
    except Exception:  # noqa: BLE001
        return False
