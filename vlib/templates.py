"""Hand-written descriptor templates for model classes the random generator does not reach."""
import numpy as np


def int_utility_desc(rng):
    """Fully discrete model whose utility is INTEGER arithmetic on the state and choice codes
    (integer dtype all the way: no float coefficient, no parameter). No period dependence."""
    nh = int(rng.integers(2, 5))
    nk = int(rng.integers(2, 4))
    nd = int(rng.integers(2, 4))
    T = int(rng.integers(2, 6))
    c = [int(x) for x in rng.integers(1, 5, 6)]
    uexpr = f"{c[0]} * h * d - {c[1]} * d * d + k * ({c[2]} + d) - {c[3]} * h + {c[4]} * (h == k)"
    fns = [["utility", ["h", "k", "d"], uexpr], ["next_k", ["k", "d"], f"(k + d) % {nk}"]]
    params = {"beta": round(float(rng.uniform(0.6, 0.99)), 4), "utility": {}, "next_k": {}, "next_h": {}}
    tables = {}
    stochastic = []
    if rng.random() < 0.5:
        P = rng.random((nd, nh, nh)) + 0.05
        P = np.where(rng.random((nd, nh, nh)) < 0.2, 0.0, P)
        P[..., 0] = np.where(P.sum(-1) == 0, 1.0, P[..., 0])
        params["shocks"] = {"h": (P / P.sum(-1, keepdims=True)).tolist()}
        fns.append(["next_h", ["d", "h"], "None"])
        stochastic.append("next_h")
    else:
        tables["NT"] = rng.integers(0, nh, (nh, nd)).tolist()
        fns.append(["next_h", ["h", "d"], "NT[h, d]"])
    if rng.random() < 0.5:
        fns.append(["d_constraint", ["d", "k"], f"d <= k + {int(rng.integers(0, 2))}"])
        params["d_constraint"] = {}
    states = [["h", {"kind": "disc", "n": nh}], ["k", {"kind": "disc", "n": nk}]]
    if rng.random() < 0.5:
        states.reverse()
    desc = {"n_periods": T, "states": states, "choices": [["d", {"kind": "disc", "n": nd}]],
            "functions": [fns[i] for i in rng.permutation(len(fns))], "stochastic": stochastic, "tables": tables, "params": params}
    return desc, {"int_utility": True, "stochastic": bool(stochastic)}


def _stateless(rng, period_dep):
    """A model WITHOUT state variables (repeated static choice problem linked only by discounting):
    every value array is a scalar."""
    nd = int(rng.integers(2, 4))
    nc = int(rng.integers(2, 9))
    T = int(rng.integers(2, 6))
    k = round(float(rng.uniform(0.1, 0.9)), 4)
    per = " * (1 + 0.31 * _period)" if period_dep else ""
    fns = [["utility", ["c", "d", "k"] + (["_period"] if period_dep else []), f"xp.log(c) - k * d{per} + {round(float(rng.uniform(0.05, 0.5)), 4)} * d * c"]]
    params = {"beta": round(float(rng.uniform(0.5, 1.0)), 4), "utility": {"k": k}}
    if rng.random() < 0.6:
        fns.append(["cd_constraint", ["c", "d"], f"c <= {round(float(rng.uniform(0.8, 2.0)), 4)} + d"])
        params["cd_constraint"] = {}
    choices = [["c", {"kind": "lin", "start": 0.5, "stop": round(float(rng.uniform(2.0, 6.0)), 4), "n": nc}], ["d", {"kind": "disc", "n": nd}]]
    if rng.random() < 0.5:
        choices.reverse()
    desc = {"n_periods": T, "states": [], "choices": choices, "functions": [fns[i] for i in rng.permutation(len(fns))],
            "stochastic": [], "tables": {}, "params": params}
    return desc, {"stateless": True}


def stateless_desc(rng):
    return _stateless(rng, bool(rng.random() < 0.6))


def stateless_noperiod_desc(rng):
    return _stateless(rng, False)


def many_categories_desc(rng):
    """Two discrete states with many categories (their product exceeds 127 and 255), one of
    them stochastic with a transition row per (health, skill) pair: the shape in which labels
    handed over as int8 / uint8 (pandas categorical codes) matter."""
    nh = int(rng.integers(11, 17))
    ns = int(rng.integers(12, 18))
    T = int(rng.integers(2, 4))
    P = rng.random((nh, ns, nh)) ** 2 + 0.01
    P = np.where(rng.random((nh, ns, nh)) < 0.5, 0.0, P)
    P[..., 0] = np.where(P.sum(-1) == 0, 1.0, P[..., 0])
    P = P / P.sum(-1, keepdims=True)
    fns = [["utility", ["health", "skill", "d", "k"], "0.05 * health - 0.03 * skill * d + k * d - 0.01 * health * d"],
           ["next_health", ["health", "skill"], "None"],
           ["next_skill", ["skill", "d"], f"xp.minimum(skill + d, {ns - 1})"]]
    params = {"beta": round(float(rng.uniform(0.6, 0.98)), 4), "utility": {"k": round(float(rng.uniform(0.1, 0.6)), 4)},
              "next_health": {}, "next_skill": {}, "shocks": {"health": P.tolist()}}
    states = [["health", {"kind": "disc", "n": nh}], ["skill", {"kind": "disc", "n": ns}]]
    if rng.random() < 0.5:
        states.reverse()
    desc = {"n_periods": T, "states": states, "choices": [["d", {"kind": "disc", "n": 2}]],
            "functions": [fns[i] for i in rng.permutation(len(fns))], "stochastic": ["next_health"], "tables": {}, "params": params}
    return desc, {"many_categories": True, "stochastic": True}


def many_restricted_desc(rng):
    """Two filter-restricted discrete states with 14-20 labels each (hundreds of feasible
    restricted-state combinations: index types narrower than the count would wrap)."""
    ne = int(rng.integers(14, 21))
    T = int(rng.integers(2, 4))
    k = round(float(rng.uniform(0.05, 0.4)), 4)
    fns = [["utility", ["exper", "tenure", "work", "move", "k"], "0.11 * xp.sqrt(1.0 + exper) + 0.07 * tenure * work - k * work - 0.13 * move + 0.02 * exper * move"],
           ["next_exper", ["exper", "work"], f"xp.minimum(exper + work, {ne - 1})"],
           ["next_tenure", ["tenure", "work", "move"], f"xp.where(move == 1, 0, xp.minimum(tenure + work, {ne - 1}))"],
           ["tenure_filter", ["tenure", "exper", "move"], "tenure <= exper"]]
    params = {"beta": round(float(rng.uniform(0.7, 0.98)), 4), "utility": {"k": k}, "next_exper": {}, "next_tenure": {}, "tenure_filter": {}}
    states = [["exper", {"kind": "disc", "n": ne}], ["tenure", {"kind": "disc", "n": ne}]]
    if rng.random() < 0.5:
        states.reverse()
    desc = {"n_periods": T, "states": states, "choices": [["work", {"kind": "disc", "n": 2}], ["move", {"kind": "disc", "n": 2}]],
            "functions": [fns[i] for i in rng.permutation(len(fns))], "stochastic": [], "tables": {}, "params": params}
    return desc, {"many_restricted": True, "filters": True}


def off_grid_optimum_desc(rng):
    """The unconstrained optimum of every period problem lies OUTSIDE the continuous choice grid
    (bliss point below the first or above the last grid point, also at 0), so the maximum over the
    grid is attained at a boundary point and any off-grid evaluation point (0, a padded or
    extrapolated point) would win. Choice grids of 3..700 points."""
    n = int([rng.integers(3, 12), rng.integers(257, 700), rng.integers(120, 257), rng.integers(513, 700)][int(rng.integers(0, 4))])
    start = round(float(rng.uniform(0.8, 3.0)), 4)
    stop = round(start + float(rng.uniform(1.0, 6.0)), 4)
    below = rng.random() < 0.7
    bliss = round(float(rng.uniform(0.0, 0.45 * start)), 4) if below else round(stop + float(rng.uniform(0.5, 3.0)), 4)
    if below and rng.random() < 0.3:
        bliss = 0.0
    nw = int(rng.integers(3, 7))
    T = int(rng.integers(2, 4))
    fns = [["utility", ["c", "w", "d", "bliss"], "-(c - bliss) ** 2 + 0.1 * xp.sqrt(w) - 0.05 * d * c"],
           ["next_w", ["w", "c", "d"], "0.9 * w + 0.2 * c + 0.5 * d"],
           ["bc_constraint", ["c", "w", "d"], f"c <= w + {round(stop + 1.0, 4)} + d"]]
    params = {"beta": round(float(rng.uniform(0.5, 0.99)), 4), "utility": {"bliss": bliss}, "next_w": {}, "bc_constraint": {}}
    choices = [["c", {"kind": "lin" if rng.random() < 0.7 else "log", "start": start, "stop": stop, "n": n}], ["d", {"kind": "disc", "n": 2}]]
    if rng.random() < 0.5:
        choices.reverse()
    desc = {"n_periods": T, "states": [["w", {"kind": "lin", "start": 1.0, "stop": 30.0, "n": nw}]], "choices": choices,
            "functions": [fns[i] for i in rng.permutation(len(fns))], "stochastic": [], "tables": {}, "params": params}
    return desc, {"off_grid_optimum": True, "long_choice_axis": n > 256}


TEMPLATES = {"many_restricted": many_restricted_desc, "many_categories": many_categories_desc, "int_utility": int_utility_desc, "stateless": stateless_desc, "stateless_noperiod": stateless_noperiod_desc,
             "off_grid_optimum": off_grid_optimum_desc}
