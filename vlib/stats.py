"""Exact-enough concentration bounds for the statistical monitors (C04)."""
import math

import numpy as np

DELTA = 1e-13  # false-alarm probability per single test
L = math.log(2.0 / DELTA)


def bernstein_halfwidth(n, p):
    """t such that P(|Bin(n,p) - n p| >= t) <= DELTA (Bernstein's inequality)."""
    var = np.asarray(n, dtype=float) * p * (1 - p)
    return L / 3.0 + np.sqrt(L * L / 9.0 + 2.0 * L * var)


def count_outside(count, n, p):
    """Boolean: observed count incompatible with Bin(n, p) at level DELTA."""
    return np.abs(np.asarray(count, dtype=float) - np.asarray(n, dtype=float) * p) > bernstein_halfwidth(n, p)


def zscore(count, n, p):
    var = np.asarray(n, dtype=float) * p * (1 - p)
    with np.errstate(all="ignore"):
        return np.where(var > 0, (count - n * p) / np.sqrt(var), 0.0)
