"""Helpers shared by the pipeline-level checks (worker side; imports lcm)."""
import hashlib
import json
import os
import traceback

import numpy as np

from vlib import bootstrap, dsl, gen
from vlib.refmodel import Ref

SRC = bootstrap.SRC


class HarnessError(Exception):
    pass


def exc_key(e, stage):
    """Mechanism key of an exception: stage, type, innermost frame inside lcm."""
    tb = traceback.extract_tb(e.__traceback__)
    frames = [x for x in tb if x.filename.startswith(SRC)]
    where = "?"
    if not frames:
        # nothing of lcm on the stack: this is a bug of the harness, never a verdict
        raise HarnessError(f"{type(e).__name__}: {e}") from e
    if frames:
        f = frames[-1]
        where = f"{os.path.basename(f.filename)}:{f.name}"
    return f"exception|stage={stage}|type={type(e).__name__}|frame={where}"


def exc_text(e):
    return f"{type(e).__name__}: {str(e)[:300]}".replace("\n", " ")


def case_rng(case, salt=0):
    return np.random.default_rng([int(x) for x in case["seed"]] + [salt])


LAST = {"desc": None, "realised": None}


def model_from_case(case):
    """Descriptor for a generated case (or the explicit descriptor of a replay)."""
    if "desc" in case:
        LAST["desc"], LAST["realised"] = case["desc"], case.get("features", {})
        return case["desc"], case.get("features", {})
    rng = case_rng(case)
    cfg = gen.THOROUGH_CFG if case.get("cfg") == "thorough" else gen.DEFAULT_CFG
    cfg = {**cfg, **case.get("cfg_over", {})}
    feats = gen.draw_features(rng, case["index"])
    feats.update(case.get("force", {}))
    desc, realised = gen.gen_model(rng, cfg=cfg, feats=feats)
    LAST["desc"], LAST["realised"] = desc, realised
    return desc, realised


def param_hash(params):
    return hashlib.sha1(json.dumps(params, sort_keys=True, default=str).encode()).hexdigest()[:10]


def get_lcm_function(model, targets, jit=True):
    from lcm.entry_point import get_lcm_function as g

    return g(model, targets, debug_mode=False, jit=jit)


def to_np_list(sol):
    return [np.asarray(a) for a in sol]


def jnp_states(init):
    import jax.numpy as jnp

    return {k: jnp.asarray(v) for k, v in init.items()}


def screened_result(desc, realised, reasons):
    return {
        "status": "screened",
        "counters": {"screened_out": 1},
        "features": {},
        "sig": dsl.shape_signature(desc),
        "nontrivial": False,
        "screen_reasons": reasons[:4],
    }


def build_ref(desc):
    return Ref(desc)
