"""Helpers shared by the pipeline-level checks (worker side; imports lcm)."""
import hashlib
import json
import os
import traceback

import numpy as np

from vlib import bootstrap, dsl, gen
from vlib.refmodel import Ref

SRC = bootstrap.SRC


class HarnessError(Exception):
    pass


def exc_key(e, stage):
    """Mechanism key of an exception: stage, type, innermost frame inside lcm."""
    tb = traceback.extract_tb(e.__traceback__)
    frames = [x for x in tb if x.filename.startswith(SRC)]
    where = "?"
    if not frames:
        # nothing of lcm on the stack: this is a bug of the harness, never a verdict
        raise HarnessError(f"{type(e).__name__}: {e}") from e
    if frames:
        f = frames[-1]
        where = f"{os.path.basename(f.filename)}:{f.name}"
    return f"exception|stage={stage}|type={type(e).__name__}|frame={where}"


def exc_text(e):
    return f"{type(e).__name__}: {str(e)[:300]}".replace("\n", " ")


def case_rng(case, salt=0):
    return np.random.default_rng([int(x) for x in case["seed"]] + [salt])


LAST = {"desc": None, "realised": None}


def model_from_case(case):
    """Descriptor for a generated case (or the explicit descriptor of a replay)."""
    if "desc" in case:
        LAST["desc"], LAST["realised"] = case["desc"], case.get("features", {})
        return case["desc"], case.get("features", {})
    rng = case_rng(case)
    if case.get("template"):
        from vlib import templates

        desc, realised = templates.TEMPLATES[case["template"]](rng)
        LAST["desc"], LAST["realised"] = desc, realised
        return desc, realised
    cfg = gen.THOROUGH_CFG if case.get("cfg") == "thorough" else gen.DEFAULT_CFG
    cfg = {**cfg, **case.get("cfg_over", {})}
    feats = gen.draw_features(rng, case["index"])
    feats.update(case.get("force", {}))
    desc, realised = gen.gen_model(rng, cfg=cfg, feats=feats)
    LAST["desc"], LAST["realised"] = desc, realised
    return desc, realised


def param_hash(params):
    return hashlib.sha1(json.dumps(params, sort_keys=True, default=str).encode()).hexdigest()[:10]


_BUILD_COUNTER = [0]


def get_lcm_function(model, targets, jit=True):
    """Build through the public entry point. Call variants that must not matter are rotated:
    debug_mode (the library's default is True), keyword vs positional `targets`."""
    from lcm.entry_point import get_lcm_function as g

    _BUILD_COUNTER[0] += 1
    k = _BUILD_COUNTER[0]
    if k % 3 == 0:
        import logging

        logging.disable(logging.CRITICAL)  # the default debug_mode=True path, without flooding stdout
        try:
            return g(model, targets=targets, jit=jit) if jit is not True else g(model, targets=targets)
        finally:
            logging.disable(logging.NOTSET)
    return g(model, targets, debug_mode=False, jit=jit)


def to_np_list(sol):
    return [np.asarray(a) for a in sol]


def jnp_states(init):
    import jax.numpy as jnp

    return {k: jnp.asarray(v) for k, v in init.items()}


def screened_result(desc, realised, reasons):
    return {
        "status": "screened",
        "counters": {"screened_out": 1},
        "features": {},
        "sig": dsl.shape_signature(desc),
        "nontrivial": False,
        "screen_reasons": reasons[:4],
    }


def build_ref(desc):
    return Ref(desc)


# --------------------------------------------------------------------------------------
# process-history independence: a *sibling* model (same variable names, function names
# and signatures; other function bodies, grids and parameters) is pushed through the same
# API calls right before the judged model.  Nothing of the sibling is judged; the judged
# model is compared with the reference as always, so any state that leaks from one model
# to the next inside a process (caches keyed by names, mutable defaults, memoised grids)
# becomes a mismatch of the judged model.
# --------------------------------------------------------------------------------------
def swapped_grid_kinds_desc(desc):
    """Sibling whose continuous grids keep (start, stop, n) but swap linear <-> logarithmic
    (anything memoised by the grid specification without its kind collides)."""
    import copy

    sib = copy.deepcopy(desc)
    n = 0
    for _, sp in sib["states"] + sib["choices"]:
        if sp["kind"] == "lin" and sp["start"] > 0 and sp["n"] >= 2:
            sp["kind"] = "log"
            n += 1
        elif sp["kind"] == "log":
            sp["kind"] = "lin"
            n += 1
    return sib if n else None


def sibling_desc(desc, mode="bodies"):
    import copy

    if mode == "swap_grid_kinds":
        return swapped_grid_kinds_desc(desc)
    sib = copy.deepcopy(desc)
    scalar = set(sib.get("scalar_functions") or ())
    for f in sib["functions"]:
        name, args, expr = f
        if name.endswith("_filter") or name.endswith("_constraint") or name in scalar:
            continue
        if name == "utility":
            f[2] = f"1.37 * ({expr}) + 0.11"
        elif not name.startswith("next_"):
            f[2] = f"0.83 * ({expr}) + 0.05"
    for _, sp in sib["states"] + sib["choices"]:
        if sp["kind"] == "lin":
            sp["start"] = round(sp["start"] + 0.173, 4)
            sp["stop"] = round(sp["stop"] + 0.291, 4)
        elif sp["kind"] == "log":
            sp["start"] = round(sp["start"] * 1.07, 4)
            sp["stop"] = round(sp["stop"] * 1.11, 4)
    rng = np.random.default_rng(12345)
    sib["params"] = gen.perturb_params(rng, sib["params"], sib.get("frozen_params", ()))
    return sib


def run_sibling(desc, *, solve=True, simulate=False, targets=None, n_agents=3, counters=None, mode="bodies"):
    """Build and run the sibling model; every failure is ignored (it is not under test)."""
    try:
        sib = sibling_desc(desc, mode)
        if sib is None:
            return False
        ref = Ref(sib)
        model = dsl.build_lcm_model(sib)
        p = dsl.lcm_params(sib["params"])
        if solve and not simulate:
            f, _ = get_lcm_function(model, "solve")
            f(p)
        if simulate:
            f, _ = get_lcm_function(model, "solve_and_simulate")
            rng = np.random.default_rng(7)
            init = gen.gen_initial_states(rng, ref, n_agents, off_grid=0.3, out_of_range=0.0)
            kw = {"additional_targets": list(targets)} if targets else {}
            f(p, initial_states=jnp_states(init), seed=3, **kw)
        if counters is not None:
            counters["sibling_models_run_before"] = counters.get("sibling_models_run_before", 0) + 1
        return True
    except Exception:  # noqa: BLE001
        if counters is not None:
            counters["sibling_models_failed"] = counters.get("sibling_models_failed", 0) + 1
        return False


def run_alias_sibling(model, counters=None):
    """Process-history workload for state keyed by FUNCTION OBJECTS: a sibling model that
    contains the judged model's own function objects a second time under other names
    (listed first, as unused auxiliary functions) is processed right before the judged
    model. Nothing of it is judged; failures are ignored."""
    try:
        import lcm

        funcs = dict(model.functions)
        alias = {}
        for k, v in funcs.items():
            if hasattr(v, "_stochastic_info") or getattr(v, "__dict__", {}).get("_stochastic_info") is not None:
                continue
            alias[f"zz_{k}_alias"] = v
        sib = lcm.Model(n_periods=model.n_periods, functions={**alias, **funcs}, states=dict(model.states), choices=dict(model.choices))
        get_lcm_function(sib, "solve")
        if counters is not None:
            counters["alias_siblings_processed_before"] = counters.get("alias_siblings_processed_before", 0) + 1
        return True
    except Exception:  # noqa: BLE001
        if counters is not None:
            counters["alias_siblings_failed"] = counters.get("alias_siblings_failed", 0) + 1
        return False


def update_params_in_place(dst, src):
    """Overwrite the leaves of the params mapping `dst` with those of `src` WITHOUT replacing
    any nested dict object (a user edits params["utility"]["dis"] = 1.0 and calls again)."""
    for k, v in src.items():
        if isinstance(v, dict) and isinstance(dst.get(k), dict):
            for kk in list(dst[k]):
                if kk not in v:
                    del dst[k][kk]
            for kk, vv in v.items():
                dst[k][kk] = vv
        else:
            dst[k] = v
    return dst


def scaled_utility_desc(desc, U):
    """The same model with utility measured in other units (utility multiplied by U > 0)."""
    import copy

    d = copy.deepcopy(desc)
    for f in d["functions"]:
        if f[0] == "utility":
            f[2] = f"{U!r} * ({f[2]})"
    return d


def rename_variables(desc, mapping):
    """Consistently rename state / choice variables (and their next_ functions): {old: new}."""
    import re

    mp = dict(mapping)
    for old, new in mapping.items():
        mp["next_" + old] = "next_" + new
    pat = re.compile(r"\b(" + "|".join(re.escape(k) for k in sorted(mp, key=len, reverse=True)) + r")\b")
    sub = lambda s: pat.sub(lambda m: mp[m.group(1)], s)  # noqa: E731
    d = dict(desc)
    d["states"] = [[mp.get(s, s), sp] for s, sp in desc["states"]]
    d["choices"] = [[mp.get(c, c), sp] for c, sp in desc["choices"]]
    d["functions"] = [[mp.get(n, n), [mp.get(a, a) for a in args], sub(expr)] for n, args, expr in desc["functions"]]
    d["stochastic"] = [mp.get(n, n) for n in desc.get("stochastic", [])]
    p = {}
    for k, v in desc["params"].items():
        if k == "shocks":
            p[k] = {mp.get(s, s): a for s, a in v.items()}
        else:
            p[mp.get(k, k)] = v
    d["params"] = p
    if "frozen_params" in d:
        d["frozen_params"] = [[mp.get(a, a), b] for a, b in d["frozen_params"]]
    return d
