"""Shared simulate-side machinery: run the real simulate function under the in-situ
monitors and judge the resulting panel row by row with the reference model.

Used by C02, C03, C06, C08, C13 (each judges its own clauses).
"""
import numpy as np

from vlib import bootstrap, dsl, gen, pipeline
from vlib.refmodel import Ref, maxdev


# --------------------------------------------------------------------------------------
# in-situ monitors (W3, W4): attached by rebinding module globals of lcm.simulate
# --------------------------------------------------------------------------------------
class Monitors:
    """Contracts on the concrete intermediate arrays inside a real simulate() run."""

    def __init__(self):
        self.counters = {}
        self.violations = []
        self._orig = {}

    def add(self, k, n=1):
        self.counters[k] = self.counters.get(k, 0) + n

    @staticmethod
    def _concrete(*arrs):
        try:
            import jax

            return not any(isinstance(a, jax.core.Tracer) for a in arrs if a is not None)
        except Exception:  # noqa: BLE001
            return True

    # ---- post-conditions ---------------------------------------------------------
    def post_argmax(self, a, axis, initial, where, result):
        if not self._concrete(a, where, result[0]):
            self.add("w4_argmax_traced")
            return True
        a = np.asarray(a, dtype=float)
        idx, mx = np.asarray(result[0]), np.asarray(result[1], dtype=float)
        if axis is None:
            axis = tuple(range(a.ndim))
        elif isinstance(axis, int):
            axis = (axis,)
        front = sorted(set(range(a.ndim)) - set(axis))
        b = a.transpose((*front, *axis))
        b = b.reshape(*b.shape[: len(front)], -1) if front else b.reshape(1, -1)
        if where is not None:
            w = np.asarray(where).transpose((*front, *axis)).reshape(b.shape)
        else:
            w = np.ones(b.shape, bool)
        idxf = idx.reshape(b.shape[:-1]) if front else idx.reshape(1)
        mxf = mx.reshape(b.shape[:-1]) if front else mx.reshape(1)
        bm = np.where(w, b, -np.inf if initial is None else initial)
        exp_max = bm.max(axis=-1)
        if initial is not None:
            exp_max = np.maximum(exp_max, initial)
        self.add("w4_argmax_concrete")
        self.add("w4_argmax_cells", int(exp_max.size))
        ok = True
        with np.errstate(all="ignore"):
            same = (mxf == exp_max) | (np.isnan(mxf) & np.isnan(exp_max))
        if not same.all():
            ok = False
            self.violations.append({"key": "w4_argmax_max_wrong", "what": "argmax: returned maximum differs from the masked maximum (in situ)"})
        picked = np.take_along_axis(bm, idxf[..., None].astype(int), axis=-1)[..., 0]
        anyw = w.any(axis=-1)
        pw = np.take_along_axis(w, idxf[..., None].astype(int), axis=-1)[..., 0]
        with np.errstate(all="ignore"):
            attains = (picked == exp_max) & pw
        bad = anyw & ~attains & ~np.isnan(exp_max)
        if bad.any():
            ok = False
            self.violations.append({"key": "w4_argmax_position_wrong", "what": f"argmax: returned position does not attain the masked maximum in {int(bad.sum())}/{bad.size} cells (in situ, concrete arrays)"})
        return ok

    def post_segment_argmax(self, data, segment_ids, num_segments, result):
        if not self._concrete(data, segment_ids, result[0]):
            self.add("w4_segargmax_traced")
            return True
        data = np.asarray(data, dtype=float)
        seg = np.asarray(segment_ids)
        idx, mx = np.asarray(result[0]), np.asarray(result[1], dtype=float)
        self.add("w4_segargmax_concrete")
        ok = True
        for s in range(int(num_segments)):
            rows = np.nonzero(seg == s)[0]
            if len(rows) == 0:
                continue
            sub = data[rows]
            m = sub.max(axis=0)
            self.add("w4_segargmax_cells", int(np.size(m)))
            with np.errstate(all="ignore"):
                if not np.array_equal(mx[s], m, equal_nan=True):
                    ok = False
                    self.violations.append({"key": "w4_segargmax_max_wrong", "what": "segment_argmax: returned maximum differs from segment maximum"})
                    break
            ii = idx[s]
            inseg = np.isin(ii, rows) | np.isnan(m)  # NaN cells (out-of-scope agents) are not judged
            if not np.all(inseg):
                ok = False
                self.violations.append({"key": "w4_segargmax_row_outside_segment", "what": "segment_argmax: returned row does not belong to the segment"})
                break
            got = np.take_along_axis(data, np.asarray(ii)[None, ...].astype(int), axis=0)[0] if data.ndim > 1 else data[ii]
            with np.errstate(all="ignore"):
                if not np.all((got == m) | np.isnan(m)):
                    ok = False
                    self.violations.append({"key": "w4_segargmax_not_maximal", "what": "segment_argmax: returned row does not attain the segment maximum"})
                    break
        return ok

    # ---- install -----------------------------------------------------------------
    def install(self):
        import lcm.simulate as sim

        mon = self

        if hasattr(sim, "argmax"):
            o = sim.argmax
            self._orig["argmax"] = o

            def argmax_w(a, axis=None, initial=None, where=None):
                r = o(a, axis=axis, initial=initial, where=where)
                mon.post_argmax(a, axis, initial, where, r)
                return r

            sim.argmax = argmax_w
        else:
            self.add("w4_argmax_unavailable")
        if hasattr(sim, "segment_argmax"):
            o2 = sim.segment_argmax
            self._orig["segment_argmax"] = o2

            def seg_w(data, segment_ids, num_segments):
                r = o2(data, segment_ids, num_segments)
                mon.post_segment_argmax(data, segment_ids, num_segments, r)
                return r

            sim.segment_argmax = seg_w
        else:
            self.add("w4_segargmax_unavailable")
        if hasattr(sim, "create_data_scs"):
            o3 = sim.create_data_scs
            self._orig["create_data_scs"] = o3
            self.data_scs = []

            def scs_w(*a, **k):
                r = o3(*a, **k)
                try:
                    period = k.get("period", a[2] if len(a) > 2 else None)
                    mon.data_scs.append((period, r))
                    mon.events.append(("scs", {"period": period, "states": k.get("states", a[0] if a else None)}))
                except Exception:  # noqa: BLE001
                    pass
                return r

            sim.create_data_scs = scs_w
        else:
            self.add("w3_unavailable")
        # W8: event trace of the eager simulate() loop (advisory: localisation and evidence only)
        self.events = []
        if hasattr(sim, "solve_continuous_problem"):
            o4 = sim.solve_continuous_problem
            self._orig["solve_continuous_problem"] = o4

            def cont_w(*a, **k):
                mon.events.append(("cont", {"vf_arr": k.get("vf_arr"), "n_indexers": len(k.get("state_indexers") or {})}))
                return o4(*a, **k)

            sim.solve_continuous_problem = cont_w
        if hasattr(sim, "_generate_simulation_keys"):
            o5 = sim._generate_simulation_keys
            self._orig["_generate_simulation_keys"] = o5

            def keys_w(*a, **k):
                r = o5(*a, **k)
                try:
                    mon.events.append(("keys", {"key_in": np.asarray(k.get("key", a[0] if a else None)), "key_out": np.asarray(r[0]), "n": len(r[1])}))
                except Exception:  # noqa: BLE001
                    pass
                return r

            sim._generate_simulation_keys = keys_w
        return self

    def uninstall(self):
        import lcm.simulate as sim

        for k, v in self._orig.items():
            setattr(sim, k, v)
        self._orig = {}


def check_data_scs(mon, ref, states_by_period):
    """W3: the data space contains exactly the filter-passing (agent, restricted choice)
    rows, agent-major; segment ids sorted, complete."""
    for period, (scs, seg) in getattr(mon, "data_scs", []):
        st = states_by_period.get(period)
        if st is None:
            continue
        N = len(next(iter(st.values())))
        try:
            sparse = {k: np.asarray(v) for k, v in scs.sparse_vars.items()}
        except Exception:  # noqa: BLE001
            mon.add("w3_traced")
            continue
        mon.add("w3_spaces_checked")
        if not ref.sparse_choices:
            for s in ref.states:
                if s in sparse and len(sparse[s]) != N:
                    mon.violations.append({"key": "w3_rows", "what": "data space without restricted choices must have one row per agent"})
            continue
        fm = ref.filter_mask(period)
        ns = len(ref.sparse_states)
        rows_exp = []
        oos = False
        for i in range(N):
            sidx = []
            for s in ref.sparse_states:
                v = int(st[s][i])
                if v < 0 or v >= ref.spec[s]["n"]:
                    oos = True
                    v = min(max(v, 0), ref.spec[s]["n"] - 1)
                sidx.append(v)
            sub = fm[tuple(sidx)] if ns else fm
            for combo in np.argwhere(sub):
                rows_exp.append((i, tuple(int(c) for c in combo)))
        if oos:
            mon.add("w3_skipped_out_of_scope")
            continue
        n_exp = len(rows_exp)
        any_var = next(iter(sparse.values()))
        if len(any_var) != n_exp:
            mon.violations.append({"key": "w3_rowcount", "what": f"period {period}: data space has {len(any_var)} rows, expected {n_exp} filter-passing (agent, choice) rows"})
            continue
        for j, c in enumerate(ref.sparse_choices):
            exp = np.array([r[1][j] for r in rows_exp])
            if c in sparse and not np.array_equal(np.asarray(sparse[c]).astype(int), exp):
                mon.violations.append({"key": "w3_choice_rows", "what": f"period {period}: stored restricted-choice rows of {c} differ from the filter-passing rows"})
        for s in ref.states:
            exp = np.array([st[s][r[0]] for r in rows_exp])
            if s in sparse and not np.array_equal(np.asarray(sparse[s]), exp):
                mon.violations.append({"key": "w3_state_rows", "what": f"period {period}: state rows of {s} are not agent-major copies of the agents' states"})
        if seg is not None:
            sid = np.asarray(seg["segment_ids"])
            agents = np.array([r[0] for r in rows_exp])
            # rank of the agent among agents having >= 1 row
            uniq = np.unique(agents)
            rank = np.searchsorted(uniq, agents)
            if not np.array_equal(sid, agents) and not np.array_equal(sid, rank):
                mon.violations.append({"key": "w3_segments", "what": f"period {period}: segment ids do not group rows by agent"})
            if int(seg["num_segments"]) != len(uniq):
                mon.violations.append({"key": "w3_num_segments", "what": f"period {period}: num_segments={seg['num_segments']} but {len(uniq)} agents have rows"})


def check_sim_trace(mon, T, df, init, vf_list, states):
    """W8 (advisory): the recorded event sequence of one simulate() call against its trace
    specification.  Returns a list of deviation strings (never verdicts: the internal call
    pattern is not part of any property; deviations localise what the boundary oracles see).

    spec: per period t = 0..T-1 in ascending order exactly one data-space construction with
    period == t, one continuous-problem call and one key hand-out; the value array handed to
    the policy function of period t is element t+1 of the list in use (None in the last
    period); the states entering period t are the states the frame reports for period t
    (period 0: the supplied initial states); the PRNG key entering period t is the carried
    key that left period t-1."""
    ev = getattr(mon, "events", None)
    if not ev:
        mon.add("w8_trace_unavailable")
        return []
    dev = []
    scs = [e[1] for e in ev if e[0] == "scs"]
    cont = [e[1] for e in ev if e[0] == "cont"]
    keys = [e[1] for e in ev if e[0] == "keys"]
    mon.add("w8_events_recorded", len(ev))
    mon.add("w8_traces_checked")
    if [e["period"] for e in scs] != list(range(T)):
        dev.append(f"w8_period_order: data spaces built for periods {[e['period'] for e in scs]}, expected {list(range(T))}")
    kinds = [e[0] for e in ev]
    per = ["scs", "cont", "keys"]
    if kinds != per * T:
        dev.append(f"w8_event_order: {kinds[:9]}... is not (scs, cont, keys) x {T}")
    if vf_list is not None and len(cont) == T:
        for t, e in enumerate(cont):
            want = vf_list[t + 1] if t < T - 1 else None
            got = e["vf_arr"]
            try:
                same = (got is None and want is None) or (got is not None and want is not None and np.array_equal(np.asarray(got), np.asarray(want), equal_nan=True))
            except Exception:  # noqa: BLE001
                same = True
            if not same:
                dev.append(f"w8_value_array: period {t} is solved against another array than element {t + 1} of the list in use")
    try:
        N = len(next(iter(init.values())))
        cols = {s_: np.asarray(df[s_].values).reshape(T, N) for s_ in states}
        for t, e in enumerate(scs[:T]):
            for s_ in states:
                internal = np.asarray(e["states"][s_], dtype=float)
                shown = np.asarray(cols[s_][t], dtype=float)
                if not np.array_equal(internal, shown, equal_nan=True):
                    dev.append(f"w8_states_vs_frame: period {t}: the states the loop works with differ from the frame's column {s_}")
                    break
                if t == 0 and not np.array_equal(internal, np.asarray(init[s_], dtype=float)):
                    dev.append(f"w8_initial_states: period 0 starts from other values of {s_} than supplied")
    except Exception:  # noqa: BLE001
        mon.add("w8_states_uncheckable")
    for t in range(1, min(len(keys), T)):
        if not np.array_equal(keys[t]["key_in"], keys[t - 1]["key_out"]):
            dev.append(f"w8_key_chain: key entering period {t} is not the carried key of period {t - 1}")
    if dev:
        mon.add("w8_trace_deviations", len(dev))
    return dev


# --------------------------------------------------------------------------------------
# running a simulation
# --------------------------------------------------------------------------------------
def vf_arrays(ref, params, mode, rng, lcm_solve=None, refsol=None):
    """Value arrays to be used by the simulation, in lcm layout (list of np arrays)."""
    if mode == "lcm":
        return [np.asarray(a) for a in lcm_solve(dsl.lcm_params(params))]
    if mode == "ref":
        return [ref.to_lcm_layout(refsol["V"][t], t) for t in range(ref.T)]
    if mode == "random":
        return [rng.normal(size=ref.lcm_shape(t)) * 3.0 for t in range(ref.T)]
    raise ValueError(mode)


def judge_panel(ref, params, df, init, vf_list, *, tol=None, targets=None, judge_c02=True):
    """Row-by-row oracle. Returns dict(violations per property, counters, valid mask)."""
    tol = bootstrap.TOL if tol is None else tol
    T = ref.T
    N = len(next(iter(init.values())))
    out = {"C02": [], "C03": [], "C13": [], "counters": {}, "maxima": {}, "valid": np.zeros((T, N), bool)}
    cnt = out["counters"]

    def add(k, n=1):
        cnt[k] = cnt.get(k, 0) + int(n)

    # ---- C13 structure ---------------------------------------------------------
    exp_cols = ["value"] + ref.choices + ref.states + ["_period"] + list(targets or [])
    exp_cols = list(dict.fromkeys(exp_cols))  # a variable may legally be called 'value': one column of that name
    if len(df) != T * N:
        out["C13"].append({"key": "panel_rowcount", "what": f"{len(df)} rows, expected {T}*{N}"})
        return out
    if list(df.index.names) != ["period", "initial_state_id"]:
        out["C13"].append({"key": "panel_index_names", "what": f"index names {list(df.index.names)}"})
    exp_index = [(t, i) for t in range(T) for i in range(N)]
    if list(map(tuple, df.index.tolist())) != exp_index:
        out["C13"].append({"key": "panel_index_order", "what": "index is not the period-major product of periods and agents"})
    if sorted(df.columns) != sorted(exp_cols):
        out["C13"].append({"key": "panel_columns", "what": f"columns {sorted(df.columns)} expected {sorted(exp_cols)}"})
        return out
    per = np.asarray(df["_period"].values)
    if not np.array_equal(per, np.repeat(np.arange(T), N)):
        out["C13"].append({"key": "panel_period_column", "what": "_period column does not equal the period of the row"})
    add("c13_structure_checks")

    vf_full = [ref.from_lcm_layout(vf_list[t], t) if vf_list[t] is not None else None for t in range(T)]
    valid = np.ones(N, bool)
    vals = df.values  # noqa: F841
    cols = {c: np.asarray(df[c].values).reshape(T, N) for c in df.columns}
    for t in range(T):
        st = {s: cols[s][t] for s in ref.states}
        ch = {c: cols[c][t] for c in ref.choices}
        # ---- C03: initial states, law of motion ---------------------------------
        if t == 0:
            for s in ref.states:
                if not np.array_equal(np.asarray(st[s], dtype=float), np.asarray(init[s], dtype=float)):
                    out["C03"].append({"key": "initial_state_changed", "what": f"period-0 column of {s} differs from the supplied initial states"})
            add("c03_initial_columns", len(ref.states))
        inr = ref.rows_in_scope(st, t)
        Vn = vf_full[t + 1] if t < T - 1 else None
        with np.errstate(all="ignore"):
            Q, ok, _ = ref.q_rows(st, t, params, Vn)
        Qf = Q.reshape(N, -1)
        Qf = np.where(np.isnan(Qf), -np.inf, Qf)
        qmax = Qf.max(axis=1)
        valid = valid & inr & np.isfinite(qmax)
        out["valid"][t] = valid
        add("rows_total", N)
        add("rows_in_scope", int(valid.sum()))
        if judge_c02 and valid.any():
            v = valid
            # grid membership
            for c in ref.choices:
                g = ref.grid[c]
                dist = np.min(np.abs(np.asarray(ch[c], dtype=float)[:, None] - g[None, :]), axis=1)
                gtol = (1e-9 if bootstrap.X64 else 1e-5) * (1 + np.abs(g).max())  # single precision: grid values are float32
                if np.any(dist[v] > gtol):
                    out["C02"].append({"key": "choice_off_grid", "what": f"period {t}: reported {c} is not a grid value for {int((dist[v] > gtol).sum())} agents"})
            with np.errstate(all="ignore"):
                Qr, okr = ref.q_at(st, ch, t, params, Vn)
            add("c02_rows_compared", int(v.sum()))
            if not np.all(okr[v]):
                out["C02"].append({"key": "infeasible_choice_reported", "what": f"period {t}: {int((~okr[v]).sum())}/{int(v.sum())} agents report a choice that fails a filter/constraint"})
            with np.errstate(all="ignore"):
                gap = (qmax - Qr) / (1 + np.abs(qmax))
            gap = np.where(np.isnan(gap), np.inf, gap)
            if v.any():
                out["maxima"]["c02_max_gap"] = max(out["maxima"].get("c02_max_gap", 0.0), float(np.max(gap[v & okr])) if (v & okr).any() else 0.0)
            badq = v & okr & (gap > tol)
            if badq.any():
                i0 = int(np.nonzero(badq)[0][0])
                out["C02"].append({"key": "choice_not_maximiser", "what": f"period {t}: {int(badq.sum())}/{int(v.sum())} agents report a feasible but non-maximising choice; agent {i0}: Q(reported)={Qr[i0]!r} max={qmax[i0]!r} choices={ {c: float(ch[c][i0]) for c in ref.choices} }",
                                  "detail": {"period": t, "n_bad": int(badq.sum())}})
            val = np.asarray(cols["value"][t], dtype=float)
            with np.errstate(all="ignore"):
                vd = np.abs(val - qmax) / (1 + np.abs(qmax))
            vd = np.where(np.isnan(vd), np.inf, vd)
            out["maxima"]["c02_max_value_dev"] = max(out["maxima"].get("c02_max_value_dev", 0.0), float(vd[v].max()))
            if np.any(vd[v] > tol):
                i0 = int(np.nonzero(v & (vd > tol))[0][0])
                out["C02"].append({"key": "value_not_max", "what": f"period {t}: reported value differs from the maximum for {int((vd[v] > tol).sum())} agents; agent {i0}: value={val[i0]!r} max={qmax[i0]!r}"})
        # ---- C03 law of motion ---------------------------------------------------
        # scope: every row whose state is a state of the period's space - also agents without
        # any feasible choice (value -inf) and agents that were out of scope earlier: the
        # statement binds the next row to the transition functions at the REPORTED row
        v3 = inr.copy()
        for c in ref.choices:
            cv = np.asarray(ch[c], dtype=float)
            v3 &= np.isfinite(cv)
            if ref.is_disc(c):
                v3 &= (cv >= 0) & (cv < ref.spec[c]["n"]) & (cv == np.rint(cv))
        add("c03_rows_without_finite_optimum_judged", int((v3 & ~valid).sum()))
        if t < T - 1 and v3.any():
            v = v3
            nxt = {s: cols[s][t + 1] for s in ref.states}
            with np.errstate(all="ignore"):
                exp = ref.next_states(st, ch, t, params)
            for s in ref.states:
                got = np.asarray(nxt[s])
                if f"next_{s}" in ref.stoch:
                    lab = got.astype(int)
                    n = ref.spec[s]["n"]
                    isl = (got == lab) & (lab >= 0) & (lab < n)
                    if not np.all(isl[v]):
                        out["C03"].append({"key": "stochastic_not_a_label", "what": f"period {t}->{t+1}: {s} takes a value that is not a grid label"})
                        continue
                    P = ref.stoch_row_probs(s, st, ch, t, params)
                    pr = P[np.arange(N), np.clip(lab, 0, n - 1)]
                    add("c03_stochastic_draws", int(v.sum()))
                    if np.any(pr[v] <= 0):
                        out["C03"].append({"key": "zero_probability_draw", "what": f"period {t}->{t+1}: {int((pr[v] <= 0).sum())}/{int(v.sum())} agents moved to a label of {s} with probability 0 in their transition row"})
                else:
                    e = np.asarray(exp[s], dtype=float)
                    g = np.asarray(got, dtype=float)
                    add("c03_transitions_compared", int(v.sum()))
                    if ref.is_disc(s):
                        bad = v & (g != e)
                    else:
                        with np.errstate(all="ignore"):
                            bad = v & ~(((np.abs(g - e) <= (1e-11 if bootstrap.X64 else 1e-4) * (1 + np.abs(e))) & np.isfinite(g) & np.isfinite(e)) | (g == e))
                    if bad.any():
                        i0 = int(np.nonzero(bad)[0][0])
                        out["C03"].append({"key": "transition_mismatch", "what": f"period {t}->{t+1}: {s} differs from next_{s}(row) for {int(bad.sum())}/{int(v.sum())} agents; agent {i0}: got {g[i0]!r} expected {e[i0]!r}"})
    return out


def judge_targets(ref, params, df, targets, valid):
    """C13: each additional target column equals the model function at the row."""
    T = ref.T
    N = valid.shape[1]
    viol, n = [], 0
    cols = {c: np.asarray(df[c].values) for c in df.columns}
    env = {v: cols[v] for v in ref.states + ref.choices}
    env["_period"] = np.repeat(np.arange(T), N)
    cache = {}
    vflat = valid.reshape(-1)
    for tg in targets:
        with np.errstate(all="ignore"):
            exp = np.broadcast_to(np.asarray(ref.evaluate(tg, env, params, cache)), (T * N,))
        got = cols[tg]
        n += int(vflat.sum())
        if exp.dtype == bool or np.issubdtype(exp.dtype, np.integer):
            bad = vflat & (np.asarray(got) != exp)
        else:
            e = np.asarray(exp, dtype=float)
            g = np.asarray(got, dtype=float)
            with np.errstate(all="ignore"):
                tol = 1e-11 if bootstrap.X64 else 1e-4
                close = ((np.abs(g - e) <= tol * (1 + np.abs(e))) & np.isfinite(g) & np.isfinite(e)) | (np.isnan(g) & np.isnan(e)) | ((g == e))
            bad = vflat & ~close
        if bad.any():
            i0 = int(np.nonzero(bad)[0][0])
            viol.append({"key": "target_mismatch", "what": f"target column {tg}: {int(bad.sum())} rows differ from the model function at the row (row {i0}: got {got[i0]!r} expected {exp[i0]!r})"})
    return viol, n


# --------------------------------------------------------------------------------------
# convenience: one real simulate() call
# --------------------------------------------------------------------------------------
def simulate_once(fsim, params, init, vf=None, seed=0, targets=None, leaf="float", st_obj=None, p_obj=None, vf_obj=None):
    import jax.numpy as jnp

    # call variants that must not matter are rotated: targets as list / tuple, seed as python
    # int / numpy integer, initial states as jax / numpy arrays
    _CALLS[0] += 1
    k = _CALLS[0]
    kw = {}
    if vf_obj is not None:
        kw["vf_arr_list"] = vf_obj  # the caller's own list object, handed over as it is
    elif vf is not None:
        kw["vf_arr_list"] = [jnp.asarray(a) for a in vf]
    if targets is not None:
        kw["additional_targets"] = list(targets) if k % 2 else tuple(targets)
    if k % 3 == 0:
        seed = np.int64(seed)
    elif k % 3 == 1:
        seed = np.int32(seed % (2**31 - 1))
    if st_obj is not None:
        st = st_obj
    elif k % 4 == 3:
        st = {kk: np.asarray(v) for kk, v in init.items()}
    else:
        st = pipeline.jnp_states(init)
    df = fsim(dsl.lcm_params(params, leaf=leaf) if p_obj is None else p_obj, initial_states=st, seed=seed, **kw)
    # the mapping handed in must come back unchanged (a user re-uses it for the next call)
    try:
        if sorted(st) != sorted(init) or any(not np.array_equal(np.asarray(st[k]), np.asarray(init[k])) for k in init):
            ARG_MUTATIONS.append({"key": "initial_states_modified", "what": "the initial_states mapping passed to simulate was modified by the call (keys or values differ afterwards)"})
    except Exception:  # noqa: BLE001
        pass
    return df


ARG_MUTATIONS = []
_CALLS = [0]


def drain_argument_mutations():
    out = list(ARG_MUTATIONS[:1])
    ARG_MUTATIONS.clear()
    return out


def row_specific_shocks(rng, ref, params):
    """Replace every transition array by one whose rows have small, row-specific supports
    (1-2 labels), so that a draw from the wrong row is outside the support w.p. >= 1/2."""
    out = dict(params)
    sh = {}
    for name in ref.stoch:
        s = name[len("next_"):]
        shape = np.asarray(params["shocks"][s]).shape
        n = shape[-1]
        P = np.zeros(shape)
        it = np.ndindex(*shape[:-1])
        for j, idx in enumerate(it):
            k = 1 if (n == 2 or rng.random() < 0.5) else 2
            labs = rng.permutation(n)[:k]
            w = rng.random(k) + 0.2
            P[idx + (slice(None),)][labs] = w / w.sum()
        sh[s] = P.tolist()
    out["shocks"] = sh
    return out


def frames_equal(a, b, tol=1e-12):
    """Discrete columns exact, float columns to tol; returns list of differing columns."""
    bad = []
    if list(a.index) != list(b.index) or sorted(a.columns) != sorted(b.columns):
        return ["__structure__"]
    for c in a.columns:
        x, y = np.asarray(a[c].values), np.asarray(b[c].values)
        if np.issubdtype(x.dtype, np.floating) or np.issubdtype(y.dtype, np.floating):
            x = x.astype(float)
            y = y.astype(float)
            with np.errstate(all="ignore"):
                ok = ((np.abs(x - y) <= tol * (1 + np.abs(y))) & np.isfinite(x) & np.isfinite(y)) | (x == y) | (np.isnan(x) & np.isnan(y))
            if not ok.all():
                bad.append(c)
        elif not np.array_equal(x, y):
            bad.append(c)
    return bad
