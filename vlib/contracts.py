"""Runtime contracts attached from the harness to the real lcm classes/functions.

icontract (installed into /verif/.deps from the offline wheelhouse) is used when it is
importable; otherwise an equivalent 20-line fallback is used. Verdicts do not depend on
which one is active. Conditions are *named functions* with an explicit `error=`
(icontract 2.7.3 call-form pitfall) that record what they saw and raise on violation;
contracts entered with tracers (inside jit/vmap) return True and are counted as traced.
"""
import numpy as np

COUNTERS = {}
FAILURES = []


def count(k, n=1):
    COUNTERS[k] = COUNTERS.get(k, 0) + n


class InvariantBroken(AssertionError):
    pass


class PostBroken(AssertionError):
    pass


try:
    import icontract

    HAVE_ICONTRACT = True
except Exception:  # noqa: BLE001
    icontract = None
    HAVE_ICONTRACT = False


def _concrete(*xs):
    import jax

    return not any(isinstance(x, jax.core.Tracer) for x in xs if x is not None)


# --------------------------------------------------------------------------------------
# C16 in situ: every continuous grid any workload constructs materialises as specified
# --------------------------------------------------------------------------------------
def grid_materialises_as_specified(self):
    """Class invariant of LinspaceGrid / LogspaceGrid (checked after __init__)."""
    from lcm.grids import LogspaceGrid

    try:
        arr = np.asarray(self.to_jax(), dtype=float)
    except Exception as e:  # noqa: BLE001
        FAILURES.append({"key": "insitu_grid_to_jax_raises", "what": f"{self!r}: to_jax() raised {type(e).__name__}"})
        return False
    count("insitu_grids_checked")
    n = int(self.n_points)
    s, e = float(self.start), float(self.stop)
    rel = 3e-6 if (isinstance(self.start, bool) or isinstance(self.stop, bool) or arr.dtype == np.float32 or not _x64()) else 1e-9
    ok = (
        arr.shape == (n,)
        and bool(np.all(np.isfinite(arr)))
        and (n < 2 or bool(np.all(np.diff(arr) > 0)))
        and abs(arr[0] - s) <= rel * max(abs(s), 1e-300)
        and (n < 2 or abs(arr[-1] - e) <= rel * max(abs(e), 1e-300))
    )
    if ok and n >= 3:
        d = np.diff(np.log(arr)) if isinstance(self, LogspaceGrid) else np.diff(arr)
        ok = bool(np.all(np.abs(d - d.mean()) <= 1e3 * rel * abs(d.mean()) + 1e-12 * np.abs(arr).max()))
    if not ok:
        FAILURES.append({"key": "insitu_grid_bad_materialisation", "what": f"{self!r} materialises to {arr[:5].tolist()}... (len {arr.shape})"})
    return ok


def _x64():
    import jax

    return bool(jax.config.jax_enable_x64)


def discrete_codes_are_range(result, self):
    """Post-condition of DiscreteGrid.to_jax."""
    if not _concrete(result):
        count("insitu_traced")
        return True
    arr = np.asarray(result)
    count("insitu_discrete_grids_checked")
    ok = arr.ndim == 1 and np.array_equal(arr.astype(float), np.arange(len(arr), dtype=float)) and len(arr) == len(self.codes)
    if not ok:
        FAILURES.append({"key": "insitu_discrete_codes", "what": f"DiscreteGrid.to_jax() = {arr.tolist()}"})
    return ok


def install_grid_contracts():
    """Attach the invariants to the real classes (module globals are rebound, so every
    grid constructed through `lcm.LinspaceGrid`/`lcm.grids.LinspaceGrid` afterwards is
    checked). Returns an undo function."""
    import lcm
    import lcm.grids as G

    orig = {"LinspaceGrid": G.LinspaceGrid, "LogspaceGrid": G.LogspaceGrid, "to_jax": G.DiscreteGrid.to_jax}
    if HAVE_ICONTRACT:
        lin = icontract.invariant(grid_materialises_as_specified, error=InvariantBroken)(G.LinspaceGrid)
        log = icontract.invariant(grid_materialises_as_specified, error=InvariantBroken)(G.LogspaceGrid)
        to_jax = icontract.ensure(discrete_codes_are_range, error=PostBroken)(G.DiscreteGrid.to_jax)
        count("icontract_active")
    else:
        def wrap_cls(cls):
            class Checked(cls):  # noqa: D401
                def __post_init__(self):
                    super().__post_init__()
                    if not grid_materialises_as_specified(self):
                        raise InvariantBroken(repr(self))

            Checked.__name__ = cls.__name__
            Checked.__qualname__ = cls.__qualname__
            return Checked

        lin, log = wrap_cls(G.LinspaceGrid), wrap_cls(G.LogspaceGrid)
        o = G.DiscreteGrid.to_jax

        def to_jax(self):
            r = o(self)
            if not discrete_codes_are_range(r, self):
                raise PostBroken("DiscreteGrid.to_jax")
            return r

        count("fallback_contracts_active")
    # icontract decorates classes in place (adds __invariants__ and wraps __init__)
    G.LinspaceGrid, G.LogspaceGrid = lin, log
    lcm.LinspaceGrid, lcm.LogspaceGrid = lin, log
    G.DiscreteGrid.to_jax = to_jax

    def undo():
        G.DiscreteGrid.to_jax = orig["to_jax"]
        for name in ("LinspaceGrid", "LogspaceGrid"):
            cls = orig[name]
            if HAVE_ICONTRACT:
                # remove the invariant machinery added in place
                for attr in ("__invariants__", "__invariants_on_setattr__"):
                    if attr in cls.__dict__:
                        try:
                            delattr(cls, attr)
                        except Exception:  # noqa: BLE001
                            pass
            setattr(G, name, cls)
            setattr(lcm, name, cls)

    return undo


def drain():
    out = list(FAILURES)
    FAILURES.clear()
    return out
