"""Seeded generator of model descriptors (DESIGN.md 4.2).

Features are drawn first (so that rare-but-important structure has a guaranteed
frequency), then the rest is filled in at random.  Every draw ends up in the descriptor.
"""
import itertools
import re

import numpy as np

FEATURES = [
    "filters",  # >= 1 filter over discrete state(s) (+ choices)
    "mixed_discrete",  # restricted and unrestricted discrete choices together
    "two_cont_choices",  # >= 2 continuous choices of unequal sizes
    "two_cont_states",  # >= 2 continuous states
    "stochastic",  # >= 1 stochastic transition
    "stoch_multi_dep",  # stochastic transition with >= 2 dependencies of unequal sizes
    "period_transition",  # a transition depends on _period
    "period_utility",  # utility / aux depends on _period
    "period_filter",  # a filter depends on _period
    "period_constraint",  # a constraint depends on _period
    "leave_above",  # continuous transition leaves a linear grid above
    "leave_below",  # ... below
    "log_grid",  # some log grid
    "aux_params",  # parameters in auxiliary functions
    "constraint_params",  # parameters in constraints
    "poison",  # utility NaN/inf/huge at infeasible choices
    "excluded_states",  # some restricted-state combination has no passing choice
    "two_stochastic",  # >= 2 stochastic states (joint expectation over a product of nodes)
    "scalar_aux",  # an auxiliary function written for scalars (stacks its arguments and reduces them)
]

STATE_NAMES = ["wealth", "health", "lagret", "educ", "exper", "assets", "kids"]
CHOICE_NAMES = ["cons", "work", "retire", "hours", "invest", "train", "move"]

DEFAULT_CFG = {
    "max_states": 3,
    "max_choices": 3,
    "max_T": 4,
    "max_cont_state_pts": 7,
    "max_cont_choice_pts": 10,
    "max_disc": 3,
    "max_cells": 40000,
    "allow_zero_choices": True,
}

THOROUGH_CFG = {
    "max_states": 4,
    "max_choices": 4,
    "max_T": 6,
    "max_cont_state_pts": 11,
    "max_cont_choice_pts": 20,
    "max_disc": 4,
    "max_cells": 250000,
    "allow_zero_choices": True,
}


def rnd(rng, lo, hi, nd=4):
    return round(float(rng.uniform(lo, hi)), nd)


def draw_features(rng, index, base=0.25):
    """Feature k is forced on for case `index` if (index + 2k) % 3 == 0."""
    f = {}
    for k, name in enumerate(FEATURES):
        forced = (index + 2 * k + (index // 3) * k) % 3 == 0
        f[name] = bool(forced or rng.random() < base)
    # dependencies between features
    if f["mixed_discrete"] or f["period_filter"] or f["excluded_states"]:
        f["filters"] = True
    if f["stoch_multi_dep"] or f["two_stochastic"]:
        f["stochastic"] = True
    return f


def gen_model(rng, cfg=None, feats=None):
    """Return (descriptor, realised_features). Params are in desc['params']."""
    cfg = {**DEFAULT_CFG, **(cfg or {})}
    F = {k: False for k in FEATURES}
    if feats:
        F.update(feats)
    else:
        F.update({k: bool(rng.random() < 0.3) for k in FEATURES})

    # ---------------------------------------------------------------- variables
    n_dS = int(rng.integers(0, 3))
    n_cS = int(rng.integers(0, 3))
    n_dC = int(rng.integers(0, 3))
    n_cC = int(rng.integers(0, 3))
    if F["filters"]:
        n_dS = max(n_dS, 1)
        n_dC = max(n_dC, 1 if rng.random() < 0.85 else 0)
    if F["mixed_discrete"]:
        n_dS = max(n_dS, 1)
        n_dC = max(n_dC, 2)
    if F["two_cont_choices"]:
        n_cC = max(n_cC, 2)
    if F["two_cont_states"]:
        n_cS = max(n_cS, 2)
    if F["stochastic"]:
        n_dS = max(n_dS, 1)
    if F.get("two_stochastic"):
        n_dS = max(n_dS, 2)
    if F["stoch_multi_dep"]:
        if n_dS + n_dC < 2:
            n_dC = max(n_dC, 1)
            n_dS = max(n_dS, 1)
    if F["leave_above"] or F["leave_below"] or F["log_grid"]:
        if n_cS == 0 and not (F["log_grid"] and n_cC > 0):
            n_cS = 1
    if n_dS + n_cS == 0:
        n_cS = 1
    if cfg.get("n_cS") is not None:
        n_cS = int(cfg["n_cS"])
        if n_cS == 0:
            n_dS = max(n_dS, 1)
            for k_ in ("two_cont_states", "leave_above", "leave_below"):
                F[k_] = False
    if cfg.get("no_period"):
        for k_ in ("period_transition", "period_utility", "period_filter", "period_constraint"):
            F[k_] = False
    if not cfg.get("allow_stochastic", True):
        F["stochastic"] = False
        F["stoch_multi_dep"] = False
    if cfg.get("n_cC") is not None:
        n_cC = int(cfg["n_cC"])
        if F["two_cont_choices"] and n_cC < 2:
            F["two_cont_choices"] = False
        cfg["max_choices"] = max(cfg["max_choices"], n_cC + min(n_dC, 2))
    # caps
    while n_dS + n_cS > cfg["max_states"]:
        if n_dS > (2 if F.get("two_stochastic") else 1) and (n_dS >= n_cS):
            n_dS -= 1
        elif n_cS > 1:
            n_cS -= 1
        else:
            break
    while n_dC + n_cC > cfg["max_choices"]:
        if n_dC > (2 if F["mixed_discrete"] else 1) and n_dC >= n_cC:
            n_dC -= 1
        elif n_cC > (2 if F["two_cont_choices"] else 1) and cfg.get("n_cC") is None:
            n_cC -= 1
        elif n_dC > 0 and not F["mixed_discrete"]:
            n_dC -= 1
        else:
            break
    if n_dC + n_cC == 0 and not cfg["allow_zero_choices"]:
        n_dC = 1

    snames = list(rng.permutation(STATE_NAMES)[: n_dS + n_cS])
    cnames = list(rng.permutation(CHOICE_NAMES)[: n_dC + n_cC])
    states, choices = [], []
    sizes_used = []

    def disc_spec():
        n = int(rng.integers(2, cfg["max_disc"] + 1))
        return {"kind": "disc", "n": n}

    def cont_spec(is_state, want_log=False):
        log = want_log or rng.random() < 0.12
        lo_pts = cfg.get("min_cont_state_pts", 2) if is_state else cfg.get("min_cont_choice_pts", 1)
        hi_pts = cfg["max_cont_state_pts"] if is_state else cfg["max_cont_choice_pts"]
        hi_pts = max(hi_pts, lo_pts)
        n = int(rng.integers(lo_pts, hi_pts + 1))
        # prefer sizes not used before (unequal sizes)
        for _ in range(4):
            if n in sizes_used:
                n = int(rng.integers(lo_pts, hi_pts + 1))
        sizes_used.append(n)
        if log:
            start = rnd(rng, 0.3, 3.0)
            stop = round(start * rnd(rng, 3.0, 40.0), 4)
            return {"kind": "log", "start": start, "stop": stop, "n": max(n, 2)}
        start = rnd(rng, 0.5, 3.0) if is_state else rnd(rng, 0.1, 1.5)
        stop = round(start + rnd(rng, 4.0, 30.0), 4)
        return {"kind": "lin", "start": start, "stop": stop, "n": n}

    need_log = F["log_grid"]
    for i, nm in enumerate(snames):
        if i < n_dS:
            states.append([str(nm), disc_spec()])
        else:
            wl = need_log and rng.random() < 0.6
            if wl:
                need_log = False
            states.append([str(nm), cont_spec(True, wl)])
    for i, nm in enumerate(cnames):
        if i < n_dC:
            choices.append([str(nm), disc_spec()])
        else:
            wl = need_log
            need_log = False
            choices.append([str(nm), cont_spec(False, wl)])
    # shrink to the cell cap
    def cells():
        p = 1
        for _, sp in states + choices:
            p *= sp["n"]
        return p

    guard = 0
    while cells() > cfg["max_cells"] and guard < 200:
        guard += 1
        cands = [sp for _, sp in states + choices if sp["kind"] != "disc" and sp["n"] > 3]
        if not cands:
            cands = [sp for _, sp in states + choices if sp["n"] > 2]
        if not cands:
            break
        sp = cands[int(rng.integers(0, len(cands)))]
        sp["n"] -= 1 if sp["n"] <= 40 else max(1, sp["n"] // 8)

    spec = dict(states) | dict(choices)
    dS = [k for k, v in states if v["kind"] == "disc"]
    cS = [k for k, v in states if v["kind"] != "disc"]
    dC = [k for k, v in choices if v["kind"] == "disc"]
    cC = [k for k, v in choices if v["kind"] != "disc"]
    T = int(rng.integers(cfg.get("min_T", 1), cfg["max_T"] + 1))
    need_T2 = any(
        F[k]
        for k in (
            "stochastic",
            "period_transition",
            "leave_above",
            "leave_below",
            "period_filter",
        )
    )
    if need_T2 and T < 2:
        T = int(rng.integers(2, cfg["max_T"] + 1))

    functions = []
    params = {"beta": rnd(rng, 0.5, 1.0)}
    tables = {}
    stochastic = []
    realised = {k: False for k in FEATURES}
    realised["log_grid"] = any(v["kind"] == "log" for v in spec.values())
    realised["two_cont_choices"] = len(cC) >= 2 and len({spec[c]["n"] for c in cC}) >= 2
    realised["two_cont_states"] = len(cS) >= 2

    frozen = []
    pname_pool = ["k", "r", "a"]  # deliberately colliding parameter names

    def pname():
        return str(rng.choice(pname_pool))

    # ---------------------------------------------------------------- auxiliary
    aux = []
    if (F["period_utility"] or rng.random() < 0.3) and not cfg.get("no_period"):
        functions.append(["age", ["_period"], "_period + 18"])
        params["age"] = {}
        aux.append("age")
    if (F["aux_params"] or rng.random() < 0.4) and (dC or cS or dS):
        base = str(rng.choice(dC or dS or cS))
        p = pname()
        args = [base, p] + (["age"] if "age" in aux and rng.random() < 0.5 else [])
        expr = f"{base} * {p}" + (" * (1 + 0.013 * age)" if "age" in args else "")
        functions.append(["income", args, expr])
        params["income"] = {p: rnd(rng, 0.5, 3)}
        aux.append("income")
        realised["aux_params"] = True
        if rng.random() < 0.4:
            p2 = pname()
            functions.append(["netinc", ["income", p2], f"income * (1 - 0.1 * {p2})"])
            params["netinc"] = {p2: rnd(rng, 0.5, 3)}
            aux.append("netinc")

    scalar_functions = []
    if F.get("scalar_aux") and len(spec) >= 2:
        # valid user code under lcm's contract (functions are called with scalars): a full
        # reduction over the stacked arguments; only correct if evaluated row by row
        two = [str(x) for x in rng.permutation(list(spec))[:2]]
        functions.append(["resources", two, f"xp.sum(xp.asarray([{two[0]}, 0.5 * {two[1]}]))"])
        params["resources"] = {}
        aux.append("resources")
        scalar_functions.append("resources")
        realised["scalar_aux"] = True

    # ---------------------------------------------------------------- filters
    filters = []
    sparse_S, sparse_C = [], []
    if F["filters"] and dS:
        nf = 1 if rng.random() < 0.7 else 2
        # which discrete choices are restricted
        if F["mixed_discrete"] and len(dC) >= 2:
            k = int(rng.integers(1, len(dC)))
            sparse_C = list(rng.permutation(dC)[:k])
        else:
            sparse_C = [c for c in dC if rng.random() < 0.7]
            if dC and not sparse_C and rng.random() < 0.8:
                sparse_C = [str(rng.choice(dC))]
        sparse_C = [str(c) for c in sparse_C]
        ks = int(rng.integers(1, min(2, len(dS)) + 1))
        sparse_S = [str(s) for s in rng.permutation(dS)[:ks]]
        for j in range(nf):
            fs_ = [s for s in sparse_S if rng.random() < 0.8] or [sparse_S[0]]
            fc_ = [c for c in sparse_C if rng.random() < 0.8]
            if j == 0:
                # first filter covers everything that must be sparse
                fs_, fc_ = list(sparse_S), list(sparse_C)
            args = [str(x) for x in rng.permutation(fs_ + fc_)]
            use_period = F["period_filter"] and (j == 0)
            form = rng.random()
            if (form < 0.2 or (F.get("scalar_aux") and form < 0.7)) and len(fs_) >= 1 and len(fc_) >= 1 and not use_period and not F["excluded_states"]:
                s, c = fs_[0], fc_[0]
                scalar_style = bool(F.get("scalar_aux") or rng.random() < 0.3)
                if scalar_style:
                    # valid user code under lcm's contract (filters are called with scalars): the
                    # filter reduces over its own stacked conditions; only correct row by row
                    expr = f"xp.any(xp.asarray([{c} == {int(rng.integers(0, spec[c]['n']))}, {s} == {int(rng.integers(0, spec[s]['n']))}]))"
                    scalar_functions.append(f"f{j}_filter")
                    realised["scalar_filter"] = True
                else:
                    expr = f"xp.logical_or({c} == {int(rng.integers(0, spec[c]['n']))}, {s} == {int(rng.integers(0, spec[s]['n']))})"
                args = [c, s]
                if j == 0:
                    extra = [x for x in sparse_S + sparse_C if x not in args]
                    for x in extra:
                        args.append(x)
                        expr = f"xp.all(xp.asarray([{expr}, {x} >= 0]))" if scalar_style else f"xp.logical_and({expr}, {x} >= 0)"
            elif 0.2 <= form < 0.32 and len(fs_) >= 1 and len(fc_) >= 1 and not use_period and not F["excluded_states"] and not F.get("scalar_aux"):
                # arithmetic on the category codes whose intermediate result can be negative
                # (adjustment limits such as |hours - lagged_hours| <= 1)
                s, c = fs_[0], fc_[0]
                k = int(rng.integers(0, 2))
                expr = [f"xp.abs({c} - {s}) <= {k}", f"{c} - {s} <= {k - 1}", f"{s} - {c} >= {-k}", f"({c} - {s}) * ({c} - {s}) <= {k + 1}"][int(rng.integers(0, 4))]
                args = [c, s]
                realised["code_difference_filter"] = True
                if j == 0:
                    for x in [x for x in sparse_S + sparse_C if x not in args]:
                        args.append(x)
                        expr = f"xp.logical_and({expr}, {x} >= 0)"
            else:
                dims = [spec[a]["n"] for a in args] + ([T] if use_period else [])
                tab = rng.random(dims) < 0.72
                if not tab.any():
                    tab.flat[0] = True
                tname = f"FT{j}"
                tables[tname] = tab.tolist()
                idx = ", ".join(args + (["_period"] if use_period else []))
                expr = f"{tname}[{idx}]"
                if use_period:
                    args = args + ["_period"]
                    realised["period_filter"] = True
            functions.append([f"f{j}_filter", args, expr])
            params[f"f{j}_filter"] = {}
            filters.append(f"f{j}_filter")
        realised["filters"] = True
        realised["mixed_discrete"] = bool(sparse_C) and any(c not in sparse_C for c in dC)

    # joint filter mask over (sparse_S..., sparse_C...) per period -> exclusions
    excluded_any = False
    always_feasible = None
    if filters:
        import vlib.dsl as _dsl

        tmp_desc = {"functions": [f for f in functions if f[0].endswith("_filter")], "tables": tables}
        ff = _dsl.make_funcs(tmp_desc, np)
        sv = sparse_S + sparse_C
        feas_t = []
        for t in range(T):
            env = {"_period": t}
            for i, v in enumerate(sv):
                sh = [1] * len(sv)
                sh[i] = spec[v]["n"]
                env[v] = np.arange(spec[v]["n"]).reshape(sh)
            m = np.ones([spec[v]["n"] for v in sv], bool)
            for name, args, _ in tmp_desc["functions"]:
                if name in scalar_functions:  # written for scalars: evaluate point by point
                    mm = np.ones(m.shape, bool)
                    for idx in np.ndindex(*m.shape):
                        pt = {v: idx[i] for i, v in enumerate(sv)}
                        pt["_period"] = t
                        mm[idx] = bool(ff[name](**{a: pt[a] for a in args}))
                    m = m & mm
                else:
                    m = m & np.broadcast_to(ff[name](**{a: env[a] for a in args}), m.shape)
            ns_ = len(sparse_S)
            feas_t.append(m.any(axis=tuple(range(ns_, m.ndim))) if m.ndim > ns_ else m)
        always = np.logical_and.reduce(feas_t)
        excluded_any = not all(f.all() for f in feas_t)
        always_feasible = np.argwhere(always)
        realised["excluded_states"] = excluded_any and len(always_feasible) > 0

    # ---------------------------------------------------------------- constraints
    if cC and cS and rng.random() < 0.75:
        c, s = str(rng.choice(cC)), str(rng.choice(cS))
        if F["constraint_params"] or rng.random() < 0.3:
            p = pname()
            functions.append(["budget_constraint", [c, s, p], f"{c} <= {s} + {p}"])
            params["budget_constraint"] = {p: rnd(rng, 0.0, 2.0)}
            realised["constraint_params"] = True
        elif "income" in aux and rng.random() < 0.4:
            functions.append(["budget_constraint", [c, s, "income"], f"{c} <= {s} + income"])
            params["budget_constraint"] = {}
        else:
            functions.append(["budget_constraint", [c, s], f"{c} <= {s}"])
            params["budget_constraint"] = {}
        if len(cC) >= 2 and rng.random() < 0.5:
            c2 = [x for x in cC if x != c][0]
            functions.append(["joint_constraint", [c, c2, s], f"{c} + 0.5 * {c2} <= {s} + {rnd(rng, 1, 6)}"])
            params["joint_constraint"] = {}
    if dC and (dS or F["period_constraint"]) and (F["period_constraint"] or rng.random() < 0.3):
        c = str(rng.choice(dC))
        if F["period_constraint"]:
            if dS and rng.random() < 0.6:
                s = str(rng.choice(dS))
                functions.append(["time_constraint", [c, s, "_period"], f"{c} <= {s} + _period"])
            else:
                functions.append(["time_constraint", [c, "_period"], f"{c} <= _period + {int(rng.integers(0, 2))}"])
            params["time_constraint"] = {}
            realised["period_constraint"] = True
        else:
            s = str(rng.choice(dS))
            p = pname()
            functions.append(["d_constraint", [c, s, p], f"{c} <= {s} + {p}"])
            params["d_constraint"] = {p: int(rng.integers(0, 2))}
            realised["constraint_params"] = True

    # ---------------------------------------------------------------- utility
    terms, uargs, uparams = [], [], {}
    for k in list(spec):
        uargs.append(k)
        pn = f"a_{k}" if rng.random() < 0.6 else None
        coef = rnd(rng, 0.1, 2.0)
        if pn:
            uparams[pn] = coef
            cstr = pn
        else:
            cstr = repr(coef)
        if spec[k]["kind"] == "disc":
            terms.append(f"{cstr} * {rnd(rng, -1, 1)} * {k} - {rnd(rng, 0, 0.3)} * {k} ** 2")
        elif k in cC:
            terms.append(f"{cstr} * xp.log({k} + {rnd(rng, 0.1, 1)})")
        else:
            terms.append(f"{cstr} * {rnd(rng, 0.05, 0.5)} * xp.sqrt({k})")
    # interactions
    if dC and cS:
        terms.append(f"{rnd(rng, -0.2, 0.2)} * {dC[0]} * xp.sqrt({cS[0]})")
    if len(dC) >= 2:
        terms.append(f"{rnd(rng, -0.4, 0.4)} * {dC[0]} * {dC[1]}")
    if dS and dC:
        terms.append(f"{rnd(rng, -0.4, 0.4)} * {dS[0]} * {dC[-1]}")
        if rng.random() < 0.5:
            # switching cost: a DIFFERENCE of two discrete variables (negative intermediate values)
            terms.append(f"- {rnd(rng, 0.05, 0.5)} * xp.abs({dC[-1]} - {dS[0]})")
            realised["discrete_difference"] = True
    if len(dC) >= 2 and rng.random() < 0.4:
        terms.append(f"- {rnd(rng, 0.05, 0.3)} * xp.abs({dC[0]} - {dC[1]})")
        realised["discrete_difference"] = True
    if len(cC) >= 2:
        terms.append(f"{rnd(rng, -0.05, 0.05)} * {cC[0]} * {cC[1]}")
    if len(cS) >= 2:
        terms.append(f"{rnd(rng, -0.02, 0.02)} * {cS[0]} * {cS[1]}")
    if "income" in aux and rng.random() < 0.6:
        uargs.append("income")
        terms.append(f"{rnd(rng, 0.01, 0.2)} * income")
    if "netinc" in aux and rng.random() < 0.7:
        uargs.append("netinc")
        terms.append(f"{rnd(rng, 0.01, 0.2)} * netinc")
    if "resources" in aux:
        uargs.append("resources")
        terms.append(f"{rnd(rng, 0.005, 0.05)} * resources")
    if F["period_utility"]:
        if "age" in aux and rng.random() < 0.5:
            uargs.append("age")
            terms.append(f"{rnd(rng, -0.05, 0.05)} * age * (1 + {rnd(rng,0.1,0.5)} * {list(spec)[0]})")
        else:
            uargs.append("_period")
            terms.append(f"{rnd(rng, -0.3, 0.3)} * _period * (1 + {rnd(rng,0.1,0.5)} * {list(spec)[0]})")
        realised["period_utility"] = True
    p = pname()
    if p not in uparams and rng.random() < 0.7:
        uparams[p] = rnd(rng, 0.5, 1.5)
        terms.append(f"{p} * 0.1")
    # poison: only infeasible choices can make the argument non-positive
    bc = [f for f in functions if f[0] == "budget_constraint"]
    if F["poison"] and bc:
        _, bargs, bexpr = bc[0]
        c, s = bargs[0], bargs[1]
        rhs = bexpr.split("<=")[1].strip()
        kind = int(rng.integers(0, 3))
        for a in bargs:
            if a not in uargs and a not in ("income",):
                # constraint parameter is not a utility parameter: inline its value (and freeze
                # it: perturbing it alone would make the poison reachable by feasible choices)
                frozen.append(["budget_constraint", a])
                rhs = re.sub(rf"\b{a}\b", repr(params["budget_constraint"][a]), rhs)
        if "income" in rhs and "income" not in uargs:
            uargs.append("income")
        if kind == 0:
            terms.append(f"0.01 * xp.log({rhs} - {c} + 0.37)")  # NaN when infeasible enough
        elif kind == 1:
            terms.append(f"xp.where({c} <= {rhs}, 0.0, xp.inf)")  # +inf at infeasible
        else:
            terms.append(f"xp.where({c} <= {rhs}, 0.0, 1e30)")
        realised["poison"] = True
    uargs = list(dict.fromkeys(uargs))
    functions.append(["utility", [str(x) for x in rng.permutation(uargs + list(uparams))], " + ".join(terms)])
    params["utility"] = uparams

    # ---------------------------------------------------------------- transitions
    sel_expr, sel_args = None, None
    for k, v in states:
        name = f"next_{k}"
        if v["kind"] == "disc":
            n = v["n"]
            restricted = k in sparse_S
            if restricted and excluded_any:
                if always_feasible is None or len(always_feasible) == 0:
                    # nothing always feasible: identity (screening decides)
                    functions.append([name, [k], f"{k}"])
                    params[name] = {}
                    continue
                if sel_expr is None:
                    a = always_feasible[int(rng.integers(0, len(always_feasible)))]
                    b = always_feasible[int(rng.integers(0, len(always_feasible)))]
                    pool = dC + dS
                    z = str(rng.choice(pool))
                    sel_args, sel_expr = [z], f"{z} == 0"
                    anchors = (a, b)
                i = sparse_S.index(k)
                a, b = anchors
                functions.append([name, list(sel_args), f"xp.where({sel_expr}, {int(a[i])}, {int(b[i])})"])
                params[name] = {}
                continue
            r = rng.random()
            want_st = (F["stochastic"] and not stochastic) or (F.get("two_stochastic") and len(stochastic) < 2)
            if (want_st or r < 0.25) and not (restricted and excluded_any) and cfg.get("allow_stochastic", True):
                pool = [x for x in dS + dC]
                deps = [d for d in pool if rng.random() < 0.4]
                if F["stoch_multi_dep"] and len(deps) < 2 and len(pool) >= 2:
                    deps = [str(x) for x in rng.permutation(pool)[:2]]
                if (F["period_transition"] and rng.random() < 0.6 or rng.random() < 0.15) and not cfg.get("no_period"):
                    deps.append("_period")
                    realised["period_transition"] = True
                if not deps:
                    deps = [str(rng.choice(pool))]
                deps = [str(d) for d in rng.permutation(deps)]
                functions.append([name, deps, "None"])
                stochastic.append(name)
                dims = [T if d == "_period" else spec[d]["n"] for d in deps] + [n]
                P = rng.random(dims) ** 2
                P = np.where(rng.random(dims) < 0.25, 0.0, P)
                # degenerate rows
                onehot = rng.random(dims[:-1]) < 0.15
                lab = rng.integers(0, n, dims[:-1])
                P = np.where(onehot[..., None], np.eye(n)[lab], P)
                z = P.sum(-1) == 0
                P[..., 0] = np.where(z, 1.0, P[..., 0])
                P = P / P.sum(-1, keepdims=True)
                params.setdefault("shocks", {})[k] = P.tolist()
                params[name] = {}
                realised["stochastic"] = True
                realised["two_stochastic"] = len(stochastic) >= 2
                sz = [d for d in dims[:-1]]
                if len(sz) >= 2 and len(set(sz)) >= 2:
                    realised["stoch_multi_dep"] = True
            elif r < 0.45 and dC:
                c = str(rng.choice(dC))
                functions.append([name, [c], f"xp.minimum({c}, {n - 1})"])
                params[name] = {}
            elif r < 0.6:
                functions.append([name, [k], f"{k}"])
                params[name] = {}
            elif r < 0.8 or F["period_transition"]:
                pool = [x for x in dS + dC if x != k]
                args = [k] + ([str(rng.choice(pool))] if pool else [])
                usep = F["period_transition"] and rng.random() < 0.7
                dims = [spec[a]["n"] for a in args] + ([T] if usep else [])
                tab = rng.integers(0, n, dims)
                tname = f"NT_{k}"
                tables[tname] = tab.tolist()
                functions.append([name, args + (["_period"] if usep else []), f"{tname}[{', '.join(args + (['_period'] if usep else []))}]"])
                params[name] = {}
                if usep:
                    realised["period_transition"] = True
            else:
                pool2 = [x for x in dS + dC if x != k]
                if pool2:
                    other = str(rng.choice(pool2))
                    functions.append([name, [k, other], f"({k} + {other}) % {n}"])
                else:
                    functions.append([name, [k], f"({k} + 1) % {n}"])
                params[name] = {}
        elif cfg.get("cont_transition") == "identity":
            functions.append([name, [k], f"{k}"])
            params[name] = {}
        else:
            args = [k]
            p = pname()
            width = v["stop"] - v["start"]
            expr = f"(1 + {p}) * {k}"
            if cC:
                c = cC[0]
                args.append(c)
                expr = f"(1 + {p}) * ({k} - {rnd(rng, 0.2, 1)} * {c})"
            if "income" in aux and rng.random() < 0.6:
                args.append("income")
                expr += " + income"
            elif dC and rng.random() < 0.5:
                d = str(rng.choice(dC))
                args.append(d)
                expr += f" + {rnd(rng, 0.5, 3)} * {d}"
            pv = rnd(rng, -0.05, 0.1)
            if v["kind"] == "lin":
                if F["leave_above"] and not realised["leave_above"]:
                    expr += f" + {round(0.35 * width, 4)}"
                    realised["leave_above"] = True
                elif F["leave_below"] and not realised["leave_below"]:
                    expr += f" - {round(0.35 * width, 4)}"
                    realised["leave_below"] = True
            if F["period_transition"] and rng.random() < 0.5:
                args.append("_period")
                expr += f" + {rnd(rng, 0.1, 1.0)} * _period"
                realised["period_transition"] = True
            if v["kind"] == "log":
                expr = f"xp.clip({expr}, {v['start']}, {v['stop']})"
            functions.append([name, args + [p], expr])
            params[name] = {p: pv}

    # a function that consumes the OUTPUT of another non-auxiliary model function: a constraint
    # on next period's continuous state (borrowing limit), optionally an auxiliary function of it
    if cS and (F.get("constraint_params") and rng.random() < 0.5 or rng.random() < 0.12):
        s_ = str(rng.choice(cS))
        if f"next_{s_}" not in stochastic and spec[s_]["kind"] == "lin":
            width = spec[s_]["stop"] - spec[s_]["start"]
            p = pname()
            lo = round(spec[s_]["start"] - rnd(rng, 0.15, 0.6) * width, 4)
            functions.append(["nb_constraint", [f"next_{s_}", p], f"next_{s_} >= {lo} - {p}"])
            params["nb_constraint"] = {p: rnd(rng, 0.0, 1.0)}
            realised["consumes_next_output"] = True

    order = rng.permutation(len(functions))
    functions = [list(functions[i]) for i in order]
    # shuffle declaration order of states and choices
    states = [states[i] for i in rng.permutation(len(states))]
    choices = [choices[i] for i in rng.permutation(len(choices))]
    desc = {
        "n_periods": T,
        "states": states,
        "choices": choices,
        "functions": functions,
        "stochastic": stochastic,
        "tables": tables,
        "params": params,
        "frozen_params": frozen,
        "scalar_functions": scalar_functions,
    }
    return desc, realised


def gen_initial_states(rng, ref, N, *, off_grid=0.5, out_of_range=0.1, int_cont=0.0):
    """Initial states for N agents: on-grid, interior off-grid, slightly out of range
    (linear grids only); restricted-state combinations from the feasible set of period 0.
    """
    init = {}
    for s in ref.states:
        sp = ref.spec[s]
        g = ref.grid[s]
        if sp["kind"] == "disc":
            init[s] = rng.integers(0, sp["n"], N)
        else:
            on = g[rng.integers(0, len(g), N)]
            off = rng.uniform(g[0], g[-1], N)
            r = rng.random(N)
            v = np.where(r < off_grid, off, on)
            if sp["kind"] == "lin" and out_of_range > 0:
                w = g[-1] - g[0]
                oor = np.where(rng.random(N) < 0.5, g[0] - 0.1 * w * rng.random(N), g[-1] + 0.1 * w * rng.random(N))
                v = np.where(rng.random(N) < out_of_range, oor, v)
            if int_cont > 0 and rng.random() < int_cont and np.floor(g[-1]) - np.ceil(g[0]) >= 1:
                # an unusual but legitimate input: integer-typed initial values of a continuous state
                v = rng.integers(int(np.ceil(g[0])), int(np.floor(g[-1])) + 1, N).astype(np.int64)
            init[s] = v
    fs = ref.feas_state(0)
    if fs is not None and fs.any():
        combos = np.argwhere(fs)
        pick = combos[rng.integers(0, len(combos), N)]
        for j, s in enumerate(ref.sparse_states):
            init[s] = pick[:, j]
    return init


def perturb_params(rng, params, frozen=()):
    """Another parameter set for the same model (same structure)."""
    frozen = {tuple(x) for x in frozen}
    out = {}
    for k, v in params.items():
        if k == "beta":
            out[k] = rnd(rng, 0.3, 1.05)
        elif k == "shocks":
            sh = {}
            for s, a in v.items():
                a = np.asarray(a, dtype=float)
                P = rng.random(a.shape) ** 2
                P = np.where(rng.random(a.shape) < 0.2, 0.0, P)
                z = P.sum(-1) == 0
                P[..., 0] = np.where(z, 1.0, P[..., 0])
                sh[s] = (P / P.sum(-1, keepdims=True)).tolist()
            out[k] = sh
        elif isinstance(v, dict):
            out[k] = {
                p: (x if (isinstance(x, int) or (k, p) in frozen) else round(x * rnd(rng, 0.7, 1.3) + rnd(rng, -0.02, 0.02), 4))
                for p, x in v.items()
            }
        else:
            out[k] = v
    return out
