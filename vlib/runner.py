"""Parent process of a check run: plan -> worker subprocesses -> verdict + evidence.

usage:  python -m vlib.runner <ID> [--tier quick|thorough] [--replay FILE]
                              [--workers N] [--cases N]

Exit codes: 0 held (possibly with KNOWN-FINDING lines), 1 violated (VIOLATION lines),
2 inconclusive (INCONCLUSIVE line; never a VIOLATION line).
"""
import argparse
import concurrent.futures as cf
import hashlib
import importlib
import json
import os
import shutil
import subprocess
import sys
import time

VERIF = os.path.dirname(os.path.dirname(os.path.abspath(__file__)))
if VERIF not in sys.path:
    sys.path.insert(0, VERIF)
PY = "/venv/bin/python" if os.path.exists("/venv/bin/python") else sys.executable
REPO = os.environ.get("LCM_REPO", "/repo")
WHEELS = "/opt/veriftools/wheels"


def ensure_deps():
    """Idempotent offline install of icontract next to the harness (optional)."""
    deps = os.path.join(VERIF, ".deps")
    if os.path.isdir(os.path.join(deps, "icontract")):
        return True
    try:
        subprocess.run(
            [PY, "-m", "pip", "install", "--quiet", "--no-index", "--find-links", WHEELS,
             "--target", deps, "icontract"],
            check=True, capture_output=True, timeout=300,
            env={**os.environ, "PIP_NO_INDEX": "1"},
        )
        return True
    except Exception:  # noqa: BLE001
        return False


def repo_hash():
    h = hashlib.sha256()
    root = os.path.join(REPO, "src", "lcm")
    for d, _, fs in sorted(os.walk(root)):
        for f in sorted(fs):
            if f.endswith(".py"):
                p = os.path.join(d, f)
                h.update(p.encode())
                with open(p, "rb") as fh:
                    h.update(fh.read())
    return h.hexdigest()[:16]


def executable_lines(path):
    """Line numbers that carry code (statement starts) according to the compiler."""
    try:
        with open(path) as fh:
            code = compile(fh.read(), path, "exec")
    except Exception:  # noqa: BLE001
        return set()
    out, todo = set(), [code]
    while todo:
        c = todo.pop()
        for _, _, ln in c.co_lines():
            if ln is not None and ln > 0:
                out.add(ln)
        for k in c.co_consts:
            if hasattr(k, "co_lines"):
                todo.append(k)
    return out


def reach_gaps(reach):
    """Per file of /repo/src/lcm: executable lines no worker of this run executed."""
    gaps = {}
    root = os.path.join(REPO, "src", "lcm")
    for f, hit in sorted(reach.items()):
        ex = executable_lines(os.path.join(root, f))
        miss = sorted(ex - set(hit))
        gaps[f] = {"executable": len(ex), "executed": len(ex & set(hit)), "not_executed": miss[:400]}
    return gaps


def load_known():
    p = os.path.join(VERIF, "known_findings.json")
    if not os.path.exists(p):
        return []
    with open(p) as fh:
        return json.load(fh).get("findings", [])


def run_batch(mod_name, batch, env_extra, rundir, bi, timeout):
    inp = os.path.join(rundir, f"in_{bi}.json")
    out = os.path.join(rundir, f"out_{bi}.jsonl")
    with open(inp, "w") as fh:
        json.dump(batch, fh)
    env = {**os.environ, "PYTHONHASHSEED": "0", **{k: str(v) for k, v in env_extra.items()}}
    env["PYTHONPATH"] = VERIF
    t0 = time.time()
    status = "ok"
    try:
        p = subprocess.run(
            [PY, "-m", "vlib.worker", mod_name, inp, out],
            cwd=VERIF, env=env, timeout=timeout, capture_output=True, text=True,
        )
        if p.returncode != 0:
            status = f"exit{p.returncode}"
            with open(os.path.join(rundir, f"err_{bi}.txt"), "w") as fh:
                fh.write(p.stdout[-4000:] + "\n" + p.stderr[-8000:])
    except subprocess.TimeoutExpired:
        status = "timeout"
    results = []
    if os.path.exists(out):
        with open(out) as fh:
            for line in fh:
                line = line.strip()
                if line:
                    try:
                        results.append(json.loads(line))
                    except json.JSONDecodeError:
                        pass
    return {"bi": bi, "status": status, "results": results, "wall": time.time() - t0}


def main(argv=None):
    ap = argparse.ArgumentParser()
    ap.add_argument("id")
    ap.add_argument("--tier", default=os.environ.get("VERIF_TIER", "quick"))
    ap.add_argument("--replay", default=None)
    ap.add_argument("--workers", type=int, default=int(os.environ.get("VERIF_WORKERS", "14")))
    ap.add_argument("--cases", type=int, default=None)
    ap.add_argument("--keep", action="store_true")
    a = ap.parse_args(argv)
    pid = a.id.upper()
    tier = a.tier if a.tier in ("quick", "thorough") else "quick"
    seed = int(os.environ.get("VERIF_SEED", "0") or 0)
    t0 = time.time()
    ensure_deps()
    mod_name = f"checks.{pid.lower()}"
    mod = importlib.import_module(mod_name)

    rundir = os.path.join(VERIF, ".run", f"{pid}_{os.getpid()}")
    os.makedirs(rundir, exist_ok=True)

    if a.replay:
        with open(a.replay) as fh:
            rp = json.load(fh)
        cases = [rp["case"]]
        w = rp.get("witness") or {}
        if isinstance(w, dict) and w.get("desc") is not None and "desc" not in cases[0]:
            cases[0]["desc"] = w["desc"]
            cases[0]["features"] = w.get("features") or {}
    else:
        cases = mod.plan(tier, seed)
        if a.cases and a.cases < len(cases):
            step = len(cases) / a.cases
            cases = [cases[int(i * step)] for i in range(a.cases)]  # evenly spaced: every slice of the plan
    for i, c in enumerate(cases):
        c.setdefault("id", f"{pid}-{tier[0]}{seed}-{i}")

    # group by env, then batches
    groups = {}
    for c in cases:
        key = json.dumps(c.get("env", {}), sort_keys=True)
        groups.setdefault(key, []).append(c)
    bs = getattr(mod, "BATCH", {}).get(tier, 4)
    batches = []
    for key, cs in groups.items():
        # interleave so that every batch gets a mix (cases are ordered by kind)
        nb = max(1, -(-len(cs) // bs))
        for j in range(nb):
            batches.append((json.loads(key), cs[j::nb]))
    timeout = getattr(mod, "TIMEOUT", {}).get(tier, 900 if tier == "quick" else 5400)
    results, batch_status = [], []
    workers = max(1, min(a.workers, len(batches)))
    with cf.ThreadPoolExecutor(max_workers=workers) as ex:
        futs = [
            ex.submit(run_batch, mod_name, b, env, rundir, bi, timeout)
            for bi, (env, b) in enumerate(batches)
        ]
        for f in cf.as_completed(futs):
            r = f.result()
            batch_status.append((r["bi"], r["status"], len(r["results"])))
            results.extend(r["results"])
    done_ids = {r["id"] for r in results}
    results.sort(key=lambda r: r["id"])
    missing = [c["id"] for c in cases if c["id"] not in done_ids]
    bad_batches = [b for b in batch_status if b[1] != "ok"]

    # ------------------------------------------------------------------ aggregate
    known = [k for k in load_known() if k.get("property") == pid and k.get("status", "known") == "known"]
    counters, maxima, feats, statuses = {}, {}, {}, {}
    sigs = set()
    violations, known_hits, harness_errors = [], {}, []
    reach = {}
    by_id = {c["id"]: c for c in cases}
    witness = {r["id"]: {"sample": r.get("sample"), "desc": r.get("witness_desc"), "features": r.get("witness_features")} for r in results if r.get("violations")}
    for r in results:
        if r["status"] == "meta":
            for f, n in r.get("reach", {}).items():
                reach.setdefault(f, set()).update(n)
            continue
        statuses[r["status"]] = statuses.get(r["status"], 0) + 1
        for k, v in r.get("counters", {}).items():
            counters[k] = counters.get(k, 0) + v
        for k, v in r.get("maxima", {}).items():
            if v is not None:
                maxima[k] = max(maxima.get(k, v), v)
        for k, v in r.get("features", {}).items():
            if v:
                feats[k] = feats.get(k, 0) + 1
        if r.get("nontrivial") and r.get("sig") is not None and r["status"] in ("held", "violated"):
            sigs.add(r["sig"])
        if r["status"] == "inconclusive":
            harness_errors.append({"id": r["id"], "error": "case inconclusive: " + str(r.get("note", ""))})
        if r["status"] == "import_error":
            harness_errors.append({"id": r["id"], "error": "lcm import failed: " + r.get("error", "")[-400:]})
        if r["status"] == "harness_error":
            harness_errors.append({"id": r["id"], "error": r.get("error", "")[:600]})
        for v in r.get("violations", []):
            hit = None
            for k in known:
                if k["key"] == v.get("key"):
                    hit = k
                    break
            if hit is not None:
                known_hits.setdefault(hit["key"], {"finding": hit, "n": 0, "example": r["id"]})["n"] += 1
            else:
                violations.append({"case_id": r["id"], **v})

    agg = mod.aggregate(results, tier) if hasattr(mod, "aggregate") else {}
    inconclusive = [] if a.replay else list(agg.get("inconclusive", []))
    for v in agg.get("violations", []):
        hit = next((k for k in known if k["key"] == v.get("key")), None)
        if hit is not None:
            known_hits.setdefault(hit["key"], {"finding": hit, "n": 0, "example": v.get("case_id")})["n"] += 1
        else:
            violations.append(v)
    floors = getattr(mod, "FLOORS", {}).get(tier, {})
    if not a.replay:
        for k, m in floors.items():
            if counters.get(k, 0) < m:
                inconclusive.append(f"monitor counter {k}={counters.get(k, 0)} below floor {m}")
        if missing:
            inconclusive.append(f"{len(missing)} cases produced no result (worker died or timed out): {missing[:3]}")
        if harness_errors:
            inconclusive.append(f"{len(harness_errors)} harness errors, first: {harness_errors[0]}")
    if bad_batches and not a.replay:
        inconclusive.append(f"worker batches not ok: {bad_batches[:4]}")

    # replays for violations
    replay_paths = []
    rh = repo_hash()
    if violations:
        rdir = os.path.join(VERIF, "replays", pid)
        os.makedirs(rdir, exist_ok=True)
        seen = set()
        for v in violations:
            cid = v["case_id"]
            if cid in seen:
                continue
            seen.add(cid)
            path = os.path.join(rdir, f"{cid}.json")
            with open(path, "w") as fh:
                json.dump(
                    {"property": pid, "case": by_id.get(cid), "witness": witness.get(cid),
                     "violations": [x for x in violations if x["case_id"] == cid][:10],
                     "repo_src_hash": rh, "seed": seed, "tier": tier}, fh, indent=1, default=str)
            replay_paths.append(path)

    # samples
    samples = []
    for r in results:
        if r["status"] == "held" and r.get("nontrivial") and len(samples) < 3:
            samples.append(r.get("sample") or by_id.get(r["id"]))
    if not samples and cases:
        samples = [cases[0]]

    evaluations = sum(v for k, v in statuses.items() if k in ("held", "violated"))
    coverage = {
        "evaluations": int(agg.get("evaluations", evaluations)),
        "distinct_nontrivial": int(agg.get("distinct_nontrivial", len(sigs))),
        "rule": getattr(mod, "RULE", ""),
        "samples": samples,
        "exhaustive": bool(agg.get("exhaustive", False)),
        "case_status": statuses,
        "monitor_counters": counters,
        "margins": maxima,
        "feature_histogram": feats,
        "reach_lines_executed": {f: len(s) for f, s in sorted(reach.items())},
        "reach_gaps": reach_gaps(reach),
        "known_findings_hit": [
            {"key": k, "n": h["n"], "example": h["example"]} for k, h in known_hits.items()
        ],
        "violation_examples": violations[:5],
        "insitu_localisation": [{"case_id": r["id"], "where": r["localisation"][:5]} for r in results if r.get("localisation")][:8],
        "worker_batches": {"n": len(batches), "not_ok": bad_batches[:10]},
        "repo_src_hash": rh,
        "inconclusive_reasons": inconclusive,
    }
    for k, v in agg.items():
        if k not in ("inconclusive", "evaluations", "distinct_nontrivial", "exhaustive", "violations"):
            coverage[k] = v
    evidence = {
        "property_id": pid,
        "tier": tier,
        "seed": seed,
        "level": getattr(mod, "LEVEL", "exploration"),
        "coverage": coverage,
        "assumptions": getattr(mod, "ASSUMPTIONS", []),
        "wall_s": round(time.time() - t0, 2),
        "violations": len(violations),
        "verdict": "violated" if violations else ("inconclusive" if inconclusive else "held"),
    }
    if not a.replay:
        # trial runs against a scratch tree (LCM_REPO set) must never overwrite the evidence
        evdir = os.path.join(VERIF, "evidence") if os.path.abspath(REPO) == "/repo" else os.path.join(VERIF, ".run", "trial_evidence")
        os.makedirs(evdir, exist_ok=True)
        with open(os.path.join(evdir, f"{pid}.json"), "w") as fh:
            json.dump(evidence, fh, indent=1, default=str)

    # ------------------------------------------------------------------ report
    print(f"[{pid}] tier={tier} seed={seed} cases={len(cases)} status={statuses} wall={evidence['wall_s']}s")
    print(f"[{pid}] observed: " + json.dumps({k: counters[k] for k in sorted(counters)}))
    if maxima:
        print(f"[{pid}] margins: " + json.dumps({k: maxima[k] for k in sorted(maxima)}))
    for k, h in known_hits.items():
        print(f"KNOWN-FINDING: property={pid} {h['finding'].get('what', k)} [key={k}; {h['n']} case(s), e.g. {h['example']}]")
    if not a.keep:
        shutil.rmtree(rundir, ignore_errors=True)
    if violations:
        shown = set()
        for v in violations:
            if v["case_id"] in shown:
                continue
            shown.add(v["case_id"])
            path = os.path.join(VERIF, "replays", pid, f"{v['case_id']}.json")
            print(f"VIOLATION property={pid} replay={path}")
            print(f"   {v.get('key')}: {str(v.get('what'))[:300]}")
            if len(shown) >= 20:
                break
        print(f"[{pid}] {len(violations)} violation(s) in {len(shown)}+ case(s)")
        return 1
    if inconclusive:
        print(f"INCONCLUSIVE property={pid} reason={'; '.join(inconclusive)[:1500]}")
        return 2
    print(f"[{pid}] HELD on everything explored")
    return 0


if __name__ == "__main__":
    sys.exit(main())
