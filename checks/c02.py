"""C02 - simulated decisions are feasible maximisers of the agent's objective."""
import numpy as np

ID = "C02"
LEVEL = "exploration"
RULE = (
    "cases = generated supported models (biased towards restricted+unrestricted discrete choices "
    "together and 0..3 continuous choices of unequal sizes) x initial states (on-grid, off-grid, "
    "slightly out of range) x value arrays in use (lcm's own solution / the reference's solution / "
    "random arrays); the real simulate function runs with JIT on; every in-scope (agent, period) row "
    "is judged: choices are grid values, feasible, Q(reported) >= max Q - tol over ALL grid choices "
    "(reference model), value == max. non-trivial = >= 1 in-scope row with >= 2 feasible choices of "
    "different value; distinct = (shape signature, parameter hash, value-array mode)."
)
ASSUMPTIONS = [
    "numpy reference Q-values (vlib.refmodel) are trusted; ties judged on values, never on indices",
    "rows whose state left the space (log-grid range, excluded combination, no feasible choice) are out of scope from then on",
]
BATCH = {"quick": 3, "thorough": 6}
TIMEOUT = {"quick": 1500, "thorough": 7200}
FLOORS = {
    "quick": {"c02_rows_compared": 1200, "models_simulated": 40},
    "thorough": {"c02_rows_compared": 50000, "models_simulated": 500},
}
NEEDED_FEATURES = ["mixed_discrete", "two_cont_choices", "filters", "vf_lcm", "vf_ref", "vf_random", "no_cont_choice", "three_cont_choices"]


def plan(tier, seed):
    n = 110 if tier == "quick" else 1400
    cases = []
    for i in range(n):
        force = {}
        if i % 4 == 0:
            force = {"mixed_discrete": True, "filters": True}
        if i % 4 == 1:
            force = {"two_cont_choices": True}
        if i % 8 == 3:
            force = {"mixed_discrete": True, "filters": True, "two_cont_choices": True}
        cases.append({"index": i, "seed": [seed, 21, i], "cfg": "quick" if tier == "quick" else "thorough",
                      "cfg_over": {"max_T": 3 if tier == "quick" else 4,
                                   "n_cC": ([0, 3][(i // 5) % 2] if i % 5 == 4 else None)},
                      "force": force, "vf": ["lcm", "ref", "random"][i % 3],
                      "agents": int([2, 3, 16, 4, 5, 16, 7, 16][i % 8]) if tier == "quick" else int([2, 3, 64, 5, 128, 7, 256, 11][i % 8]),
                      "env": {"VERIF_X64": "1"}})
    # a very large panel with large continuous choice grids (tens of millions of evaluated
    # state-choice rows per period: any batching of the row dimension is exercised)
    for i in range(2 if tier == "quick" else 6):
        cases.append({"index": 3 * i + 2, "seed": [seed, 24, i], "cfg": "quick",
                      "cfg_over": {"max_T": 2, "min_T": 2, "n_cC": 2, "min_cont_choice_pts": 24, "max_cont_choice_pts": 30, "max_states": 2, "max_choices": 2,
                                   "max_cells": 40000, "n_cS": 1},
                      "force": {"poison": False, "two_cont_choices": True, "filters": False, "mixed_discrete": False, "stochastic": False, "two_stochastic": False,
                                "two_cont_states": False, "excluded_states": False, "period_filter": False},
                      "vf": "ref", "agents": 32000, "big_panel": True, "env": {"VERIF_X64": "1"}})
    # single precision (x64 disabled is JAX's default for users who do not opt in)
    for i in range(8 if tier == "quick" else 100):
        cases.append({"index": 5 * i + 1, "seed": [seed, 23, i], "cfg": "quick", "cfg_over": {"max_T": 3},
                      "force": {"poison": False, "mixed_discrete": i % 2 == 0, "filters": i % 2 == 0, "two_cont_choices": i % 3 == 0},
                      "vf": ["lcm", "ref", "random"][i % 3], "agents": 12, "env": {"VERIF_X64": "0"}})
    # the same decision problems in other units (utility and value arrays multiplied by U)
    for i in range(12 if tier == "quick" else 120):
        cases.append({"index": 3 * i + (i % 3), "seed": [seed, 22, i], "cfg": "quick" if tier == "quick" else "thorough",
                      "cfg_over": {"max_T": 3}, "force": {"poison": False, "two_cont_choices": i % 2 == 0, "mixed_discrete": i % 3 == 0, "filters": i % 3 == 0},
                      "vf": ["lcm", "ref", "random"][i % 3], "unit": [1e-14, 1e290, 1e-30, 1e200][i % 4],
                      "agents": 16 if tier == "quick" else 64, "env": {"VERIF_X64": "1"}})
    return cases


def run_case(case):
    from vlib import bootstrap, dsl, gen, pipeline, simcheck
    from vlib.refmodel import Ref

    rng = pipeline.case_rng(case, 5)
    desc, realised = pipeline.model_from_case(case)
    ref = Ref(desc)
    params = desc["params"]
    refsol = ref.solve(params)
    ok, reasons = ref.supported(refsol)
    if not ok:
        return pipeline.screened_result(desc, realised, reasons)
    res = {"counters": {}, "maxima": {}, "violations": [], "features": {}, "nontrivial": False}
    N = case["agents"]
    init = gen.gen_initial_states(rng, ref, N, int_cont=0.4 if case["index"] % 4 == 2 else 0.0)
    if case["index"] % 5 == 0:
        pipeline.run_sibling(desc, simulate=True, counters=res["counters"])
    mon = simcheck.Monitors().install()
    try:
        try:
            U = float(case.get("unit", 1.0))
            model = dsl.build_lcm_model(desc if U == 1.0 else pipeline.scaled_utility_desc(desc, U))
            if U != 1.0:
                res["counters"]["unit_scaled_models"] = 1
            mode = case["vf"]
            if mode == "lcm":
                fsol, _ = pipeline.get_lcm_function(model, "solve")
                vf = [a_ / U for a_ in simcheck.vf_arrays(ref, params, "lcm", rng, lcm_solve=fsol)]
            else:
                vf = simcheck.vf_arrays(ref, params, mode, rng, refsol=refsol)
            # "the value arrays in use": the arrays handed over as vf_arr_list, also when the
            # function was obtained for target solve_and_simulate (call variant of the same API)
            both = mode == "random" and (case["index"] // 3) % 2 == 0
            fsim, _ = pipeline.get_lcm_function(model, "solve_and_simulate" if both else "simulate")
            if both:
                res["counters"]["vf_arr_list_passed_to_solve_and_simulate"] = 1
        except Exception as e:  # noqa: BLE001
            res["violations"].append({"key": pipeline.exc_key(e, "build"), "what": pipeline.exc_text(e)})
            res["status"] = "violated"
            return res
        try:
            import jax.numpy as jnp

            df = fsim(dsl.lcm_params(params), initial_states=pipeline.jnp_states(init),
                      vf_arr_list=[jnp.asarray(a * U) for a in vf], seed=int(case["seed"][-1]))
            if U != 1.0:
                df = df.assign(value=df["value"] / U)  # back to the reference's units
        except Exception as e:  # noqa: BLE001
            res["violations"].append({"key": pipeline.exc_key(e, "simulate"), "what": pipeline.exc_text(e),
                                      "detail": {"sig": dsl.shape_signature(desc)}})
            res["status"] = "violated"
            res["features"] = {k: bool(v) for k, v in realised.items()}
            return res
    finally:
        mon.uninstall()
    j = simcheck.judge_panel(ref, params, df, init, vf)
    res["violations"] += j["C02"]
    # structural failure of the panel prevents judging: report it (it is C13's property,
    # but without a panel C02 cannot be decided for this case)
    if j["C13"] and not j["counters"].get("c02_rows_compared"):
        res["violations"] += [{"key": "panel_unusable:" + v["key"], "what": v["what"]} for v in j["C13"]]
    for k, v in j["counters"].items():
        res["counters"][k] = res["counters"].get(k, 0) + v
    try:  # W8 (advisory): event trace of the simulate loop against its trace specification
        tdev = simcheck.check_sim_trace(mon, ref.T, df, init, [a_ * float(case.get("unit", 1.0)) for a_ in vf], ref.states)
    except Exception:  # noqa: BLE001
        tdev = []
        mon.add("w8_trace_checker_error")
    if tdev:
        res.setdefault("localisation", []).extend(tdev[:5])
    for k, v in mon.counters.items():
        res["counters"][k] = res["counters"].get(k, 0) + v
    res["counters"]["models_simulated"] = 1
    res["maxima"] = j["maxima"]
    if mon.violations:
        res["localisation"] = [v["key"] for v in mon.violations][:5]
        res["counters"]["w_insitu_postcondition_failures"] = len(mon.violations)
    res["status"] = "violated" if res["violations"] else "held"
    f = {k: bool(v) for k, v in realised.items()}
    f["vf_" + case["vf"]] = True
    f["no_cont_choice"] = len(ref.cont_choices) == 0
    f["three_cont_choices"] = len(ref.cont_choices) >= 3
    f["restricted_states"] = bool(ref.sparse_states)
    res["features"] = f
    res["sig"] = f"{dsl.shape_signature(desc)}#{pipeline.param_hash(params)}#{case['vf']}"
    res["nontrivial"] = bool(j["counters"].get("c02_rows_compared", 0) > 0 and int(np.prod(ref.cshape or (1,))) >= 2)
    res["sample"] = {"desc": {k: v for k, v in desc.items() if k != "tables"}, "agents": N, "vf": case["vf"],
                     "rows_in_scope": j["counters"].get("rows_in_scope", 0), "rows_total": j["counters"].get("rows_total", 0)}
    return res


def aggregate(results, tier):
    inc = []
    feats = {}
    for r in results:
        if r.get("status") in ("held", "violated"):
            for k, v in r.get("features", {}).items():
                if v:
                    feats[k] = feats.get(k, 0) + 1
    for k in NEEDED_FEATURES:
        if feats.get(k, 0) == 0:
            inc.append(f"needed feature never realised by a judged case: {k}")
    return {"inconclusive": inc}
