"""C11 - the solution obeys the algebraic laws of finite-horizon dynamic programming."""
import numpy as np

ID = "C11"
LEVEL = "exploration"
RULE = (
    "metamorphic pairs of real solve() runs: (i) utility -> a*utility+b (a in (0.1,10), b in (-5,5)): "
    "V'_t == a*V_t + b*sum_{k<T-t} beta^k; (ii) beta=0: V_t of the T-period model == last array of the "
    "(t+1)-period model (period-indexed transition arrays truncated); (iii) models without period dependence: "
    "V^(T)_{T-1-k} == V^(T')_{T'-1-k}; (iv) one-hot transition rows == the deterministic transition they "
    "encode. workload = small generated models AND large consumption-saving models (up to 300 wealth points x "
    "1000 consumption points x 8 periods in the thorough tier, with and without the absorbing-retirement "
    "filter) where no reference enumeration is feasible. non-trivial = T>=2 and non-constant values; "
    "distinct = (law, shape signature or size, params)."
)
ASSUMPTIONS = ["laws are compared between two runs of the real code (tolerance 1e-9 relative, scaled by a)"]
BATCH = {"quick": 3, "thorough": 5}
TIMEOUT = {"quick": 1500, "thorough": 7200}
FLOORS = {"quick": {"law_affine": 12, "law_beta0": 10, "law_horizon": 10, "law_onehot": 8, "entries_compared": 4000, "large_models": 6},
          "thorough": {"law_affine": 100, "law_beta0": 100, "law_horizon": 100, "law_onehot": 60, "entries_compared": 100000, "large_models": 40}}


def plan(tier, seed):
    q = tier == "quick"
    cases = []
    for i in range(80 if q else 700):
        law = ["affine", "beta0", "horizon", "onehot"][i % 4]
        over = {"max_T": 4 if q else 6, "max_cells": 15000}
        force = {}
        if law == "horizon":
            over["no_period"] = True
        if law == "onehot":
            force = {"stochastic": True, "stoch_multi_dep": i % 8 == 3}
        cases.append({"kind": "small", "law": law, "index": i, "seed": [seed, 111, i], "cfg": "quick", "cfg_over": over, "force": force, "env": {"VERIF_X64": "1"}})
    for i in range(6 if q else 40):  # horizons beyond 10 periods on tiny models
        cases.append({"kind": "small", "law": ["horizon", "affine", "beta0"][i % 3], "index": i, "seed": [seed, 113, i], "cfg": "quick", "long_horizon": True,
                      "cfg_over": {"min_T": 11, "max_T": 13, "max_cells": 600, "max_states": 2, "max_choices": 2, "max_cont_state_pts": 4, "max_cont_choice_pts": 4,
                                   "no_period": i % 3 == 0},
                      "force": {"two_stochastic": False, "two_cont_states": False, "two_cont_choices": False}, "env": {"VERIF_X64": "1"}})
    for i in range(9 if q else 60):  # utility in integer arithmetic (integer dtype meets a, b and beta)
        cases.append({"kind": "small", "law": ["affine", "horizon", "beta0"][i % 3], "template": "int_utility", "index": i, "seed": [seed, 114, i],
                      "cfg": "quick", "env": {"VERIF_X64": "1"}})
    for i in range(9 if q else 60):  # models without state variables
        law = ["affine", "horizon", "beta0"][i % 3]
        cases.append({"kind": "small", "law": law, "template": "stateless_noperiod" if law == "horizon" else "stateless", "index": i, "seed": [seed, 115, i],
                      "cfg": "quick", "env": {"VERIF_X64": "1"}})
    for i in range(9 if q else 48):
        cases.append({"kind": "large", "law": ["affine", "beta0", "horizon"][i % 3], "index": i, "seed": [seed, 112, i],
                      "size": ([60, 150, 4] if q else [[100, 500, 5], [200, 700, 6], [300, 1000, 8]][i % 3]), "filter": i % 2 == 1, "env": {"VERIF_X64": "1"}})
    return cases


def large_desc(nw, nc, T, with_filter, rng):
    from vlib.gen import rnd

    fns = [
        ["utility", ["consumption", "working", "disutility_of_work"] + (["lagged_retirement"] if with_filter else []), "xp.log(consumption) - disutility_of_work * working"],
        ["working", ["retirement"], "1 - retirement"],
        ["labor_income", ["working", "wage"], "working * wage"],
        ["wage", ["age"], "1 + 0.1 * age"],
        ["age", ["_period"], "_period + 18"],
        ["next_wealth", ["wealth", "consumption", "labor_income", "interest_rate"], "(1 + interest_rate) * (wealth - consumption) + labor_income"],
        ["consumption_constraint", ["consumption", "wealth"], "consumption <= wealth"],
    ]
    states = [["wealth", {"kind": "lin", "start": 1, "stop": 400, "n": nw}]]
    params = {"beta": rnd(rng, 0.5, 1.05), "utility": {"disutility_of_work": rnd(rng, 0.1, 1.5)}, "next_wealth": {"interest_rate": rnd(rng, 0.0, 0.1)},
              "working": {}, "labor_income": {}, "wage": {}, "age": {}, "consumption_constraint": {}}
    if with_filter:
        states.append(["lagged_retirement", {"kind": "disc", "n": 2}])
        fns.append(["next_lagged_retirement", ["retirement"], "retirement"])
        fns.append(["absorbing_retirement_filter", ["retirement", "lagged_retirement"], "xp.logical_or(retirement == 1, lagged_retirement == 0)"])
        params["next_lagged_retirement"] = {}
        params["absorbing_retirement_filter"] = {}
    return {"n_periods": T, "states": states,
            "choices": [["retirement", {"kind": "disc", "n": 2}], ["consumption", {"kind": "lin", "start": 1, "stop": 400, "n": nc}]],
            "functions": fns, "stochastic": [], "tables": {}, "params": params}


def truncate(desc, T2):
    """Same model with horizon T2 <= T (period-indexed shock arrays truncated)."""
    d = dict(desc)
    d["n_periods"] = T2
    fa = {n: a for n, a, _ in desc["functions"]}
    p = dict(desc["params"])
    if "shocks" in p:
        sh = {}
        for s, arr in p["shocks"].items():
            a = np.asarray(arr, dtype=float)
            deps = fa[f"next_{s}"]
            for ax, dname in enumerate(deps):
                if dname == "_period":
                    a = np.take(a, np.arange(T2), axis=ax)
            sh[s] = a.tolist()
        p["shocks"] = sh
    d["params"] = p
    return d


def run_case(case):
    from vlib import bootstrap, dsl, pipeline
    from vlib.refmodel import Ref, maxdev

    rng = pipeline.case_rng(case, 5)
    res = {"counters": {}, "maxima": {}, "violations": [], "features": {}, "nontrivial": False}
    cnt = res["counters"]

    def add(k, n=1):
        cnt[k] = cnt.get(k, 0) + int(n)

    if case["kind"] == "small":
        desc, realised = pipeline.model_from_case(case)
        ref = Ref(desc)
        sol = ref.solve(desc["params"])
        ok, reasons = ref.supported(sol)
        if not ok:
            return pipeline.screened_result(desc, realised, reasons)
        if desc["n_periods"] < 2:
            desc = dict(desc)
            return pipeline.screened_result(desc, realised, ["single_period"])
    else:
        nw, nc, T = case["size"]
        desc, realised = large_desc(nw, nc, T, case["filter"], rng), {}
        add("large_models")
    params = desc["params"]
    T = desc["n_periods"]
    law = case["law"]

    def solve(d):
        m = dsl.build_lcm_model(d)
        f, _ = pipeline.get_lcm_function(m, "solve")
        return pipeline.to_np_list(f(dsl.lcm_params(d["params"])))

    def cmp(a, b, what, scale=1.0):
        add("entries_compared", a.size)
        if a.shape != b.shape:
            res["violations"].append({"key": f"law_{law}_shape", "what": f"{what}: shapes {a.shape} vs {b.shape}"})
            return
        with np.errstate(all="ignore"):
            dev = np.abs(a - b) / (scale * (1 + np.abs(b)))
            dev = np.where((a == b) | (np.isnan(a) & np.isnan(b)), 0.0, dev)
            dev = np.where(np.isnan(dev), np.inf, dev)
        m = float(dev.max()) if dev.size else 0.0
        res["maxima"][f"law_{law}_max_dev"] = max(res["maxima"].get(f"law_{law}_max_dev", 0.0), m)
        if m > 1e-9:
            i0 = tuple(int(x) for x in np.unravel_index(np.argmax(dev), dev.shape))
            res["violations"].append({"key": f"law_{law}_violated", "what": f"{what}: entry {i0}: {a[i0]!r} vs {b[i0]!r} (rel dev {m:.3g})"})

    try:
        base = solve(desc)
        if law == "affine":
            a_, b_ = float(np.round(10 ** rng.uniform(-1, 1), 4)), float(np.round(rng.uniform(-5, 5), 4))
            d2 = dict(desc)
            d2["functions"] = [[n, ar, (f"{a_} * ({e}) + {b_}" if n == "utility" else e)] for n, ar, e in desc["functions"]]
            out = solve(d2)
            beta = params["beta"]
            for t in range(T):
                geo = sum(beta ** k for k in range(T - t))
                cmp(out[t], a_ * base[t] + b_ * geo, f"a={a_}, b={b_}, beta={beta}, period {t}", scale=max(a_, 1.0) + abs(b_) * geo / (1 + np.abs(base[t]).max()))
            add("law_affine")
            # the variant made with the public Model.replace from ONE base model object; the base is
            # solved AFTER the variant exists (a replace that touched its base would show here)
            if case.get("index", 0) % 3 != 2:
                m_base = dsl.build_lcm_model(desc)
                u2 = dsl.build_lcm_model(d2).functions["utility"]
                m_var = m_base.replace(functions={**m_base.functions, "utility": u2})
                m_hor = m_base.replace(n_periods=T)  # a second derived model that must equal the base
                f_v, _ = pipeline.get_lcm_function(m_var, "solve")
                out_r = pipeline.to_np_list(f_v(dsl.lcm_params(params)))
                f_b0, _ = pipeline.get_lcm_function(m_base, "solve")
                base_r = pipeline.to_np_list(f_b0(dsl.lcm_params(params)))
                f_h, _ = pipeline.get_lcm_function(m_hor, "solve")
                hor_r = pipeline.to_np_list(f_h(dsl.lcm_params(params)))
                for t in range(T):
                    geo = sum(beta ** k for k in range(T - t))
                    sc = max(a_, 1.0) + abs(b_) * geo / (1 + np.abs(base[t]).max())
                    cmp(out_r[t], a_ * base_r[t] + b_ * geo, f"variant made by Model.replace, base solved afterwards: a={a_}, b={b_}, period {t}", scale=sc)
                    cmp(base_r[t], base[t], f"base model solved after Model.replace made a variant of it vs the same specification built alone, period {t}")
                    cmp(hor_r[t], base[t], f"base.replace(n_periods=same) vs the same specification built alone, period {t}")
                add("law_affine_via_model_replace")
            # the same law through PARAMETERS on one pair of function objects: utility is written as
            # ua * (u) + ub; the functions are called with (1, 0), the params mapping is edited in
            # place to (a, b) and the same objects are called again. solve: V' = a V + b S_t;
            # solve_and_simulate (same initial states and seed): value' = a value + b S_t row by row
            if case["kind"] == "small" and case.get("index", 0) % 2 == 0:
                from vlib import gen, simcheck

                d3 = dict(desc)
                d3["functions"] = [[n, (ar + ["ua", "ub"] if n == "utility" else ar), (f"ua * ({e}) + ub" if n == "utility" else e)] for n, ar, e in desc["functions"]]
                d3["params"] = {**params, "utility": {**params.get("utility", {}), "ua": 1.0, "ub": 0.0}}
                m3 = dsl.build_lcm_model(d3)
                f_s, _ = pipeline.get_lcm_function(m3, "solve")
                f_b, _ = pipeline.get_lcm_function(m3, "solve_and_simulate")
                pm = dsl.lcm_params(d3["params"])
                V1 = pipeline.to_np_list(f_s(pm))
                r3 = Ref(d3)
                init = gen.gen_initial_states(rng, r3, 12, out_of_range=0.0) if r3.states else None
                df1 = f_b(pm, initial_states=pipeline.jnp_states(init), seed=5) if init is not None else None
                pm["utility"]["ua"], pm["utility"]["ub"] = a_, b_  # in place, nothing else touched
                V2 = pipeline.to_np_list(f_s(pm))
                for t in range(T):
                    geo = sum(beta ** k for k in range(T - t))
                    cmp(V2[t], a_ * V1[t] + b_ * geo, f"params edited in place on the same solve function: a={a_}, b={b_}, period {t}", scale=max(a_, 1.0) + abs(b_) * geo / (1 + np.abs(V1[t]).max()))
                if df1 is not None:
                    df2 = f_b(pm, initial_states=pipeline.jnp_states(init), seed=5)
                    per = np.asarray(df1["_period"].values)
                    geo_r = np.array([sum(beta ** k for k in range(T - int(t))) for t in per])
                    v1, v2 = np.asarray(df1["value"].values, dtype=float), np.asarray(df2["value"].values, dtype=float)
                    okr = np.isfinite(v1) & np.isfinite(v2)
                    same_path = np.ones(len(df1), bool)
                    for c_ in df1.columns:
                        if c_ not in ("value",):
                            x_, y_ = np.asarray(df1[c_].values, dtype=float), np.asarray(df2[c_].values, dtype=float)
                            same_path &= (x_ == y_) | (np.isnan(x_) & np.isnan(y_))
                    # rows of agents whose whole path coincides (ties may legitimately resolve differently)
                    N_ = len(df1) // T
                    agent_ok = same_path.reshape(T, N_).all(axis=0)
                    use = okr & np.tile(agent_ok, T)
                    add("law_affine_simulated_rows", int(use.sum()))
                    if use.any():
                        cmp(v2[use], a_ * v1[use] + b_ * geo_r[use], f"params edited in place on the same solve_and_simulate function: a={a_}, b={b_}: value column", scale=max(a_, 1.0) + abs(b_) * geo_r.max() / (1 + np.abs(v1[use]).max()))
                add("law_affine_in_place")
        elif law == "beta0":
            d0 = dict(desc)
            d0["params"] = {**params, "beta": 0.0}
            out = solve(d0)
            for t in range(T):
                dt = truncate(d0, t + 1)
                one = solve(dt)
                cmp(out[t], one[-1], f"beta=0, period {t} of the {T}-period model vs last period of the {t + 1}-period model")
            add("law_beta0")
        elif law == "horizon":
            if case["kind"] == "large":
                # remove the period dependence of the large model (wage via age)
                desc = dict(desc)
                desc["functions"] = [[n, ar, ("18" if n == "age" else e)] for n, ar, e in desc["functions"]]
                desc["functions"] = [[n, ([] if n == "age" else ar), e] for n, ar, e in desc["functions"]]
                base = solve(desc)
            T2 = max(1, T - int(rng.integers(1, T))) if not case.get("long_horizon") else int(rng.integers(2, 9))
            out = solve(truncate(desc, T2))
            for k in range(T2):
                cmp(out[T2 - 1 - k], base[T - 1 - k], f"{k} periods before the end: horizon {T2} vs horizon {T}")
            add("law_horizon")
        else:  # onehot
            ref = Ref(desc)
            if not ref.stoch:
                return pipeline.screened_result(desc, realised, ["no_stochastic_transition"])
            d_st = dict(desc)
            d_dt = dict(desc)
            p_st = dict(params)
            sh = dict(params["shocks"])
            tables = dict(desc.get("tables", {}))
            fns_dt = []
            for n, ar, e in desc["functions"]:
                if n in ref.stoch:
                    s = n[len("next_"):]
                    shp = np.asarray(params["shocks"][s]).shape
                    lab = rng.integers(0, shp[-1], shp[:-1])
                    sh[s] = np.eye(shp[-1])[lab].tolist()
                    if len(ar) == 0:
                        fns_dt.append([n, ar, str(int(lab))])
                    else:
                        tables[f"DT_{s}"] = lab.tolist()
                        fns_dt.append([n, ar, f"DT_{s}[{', '.join(ar)}]"])
                else:
                    fns_dt.append([n, ar, e])
            p_st["shocks"] = sh
            d_st["params"] = p_st
            d_dt["functions"] = fns_dt
            d_dt["tables"] = tables
            d_dt["stochastic"] = []
            d_dt["params"] = {k: v for k, v in params.items() if k != "shocks"}
            # the degenerate model must itself be a supported model
            r2 = Ref(d_dt)
            if not r2.supported(r2.solve(d_dt["params"]))[0]:
                return pipeline.screened_result(desc, realised, ["degenerate_variant_unsupported"])
            a = solve(d_st)
            b = solve(d_dt)
            for t in range(T):
                cmp(a[t], b[t], f"one-hot transition arrays vs deterministic transition, period {t}")
            add("law_onehot")
    except Exception as e:  # noqa: BLE001
        res["violations"].append({"key": pipeline.exc_key(e, "solve_" + law), "what": pipeline.exc_text(e)})
    res["features"] = {**{k: bool(v) for k, v in realised.items()}, "law_" + law: True, "kind_" + case["kind"]: True}
    res["sig"] = f"{law}|{case['kind']}|{dsl.shape_signature(desc)}|{pipeline.param_hash(params)}"
    res["nontrivial"] = bool(T >= 2)
    res["sample"] = {"law": law, "kind": case["kind"], "n_periods": T, "size": case.get("size"), "signature": dsl.shape_signature(desc)}
    res["status"] = "violated" if res["violations"] else "held"
    return res
