"""C18 - maximisers returned by the arg-max primitives attain the maximum."""
import itertools

import numpy as np

ID = "C18"
LEVEL = "exploration"
RULE = (
    "unit cases = random arrays (rank 1-4, float/int dtypes, tie patterns via small-integer values) x every "
    "non-empty subset of axes x masks (none / random / one cell fully masked / all masked) x eager|jit for "
    "lcm.argmax.argmax; random sorted segmentations x rank 1-3 data for segment_argmax; reduction cases = "
    "get_solve_discrete_problem(...) on random conditional value arrays of generated variable layouts vs a "
    "Python loop over states; fused cases = the real create_compute_conditional_continuation_policy + "
    "spacemap wiring over 1-3 continuous product axes and a state batch inside ONE jit, producer re-evaluated "
    "eagerly in numpy float64 and the returned position judged on values (tol 1e-9). oracle = numpy. "
    "non-trivial = array with >= 2 candidate positions in some cell; distinct = (kind, shape, axes, mask kind, dtype)."
)
ASSUMPTIONS = ["numpy reductions as oracle", "NaN only at masked positions (statement does not cover NaN among candidates)"]
BATCH = {"quick": 12, "thorough": 30}
FLOORS = {"quick": {"argmax_cells": 10000, "segment_cells": 400, "fused_cells": 5000, "reduction_states": 500},
          "thorough": {"argmax_cells": 120000, "segment_cells": 5000, "fused_cells": 60000, "reduction_states": 6000}}


def plan(tier, seed):
    q = tier == "quick"
    cases = [{"kind": "unit", "index": i, "seed": [seed, 181, i], "env": {"VERIF_X64": "1" if i % 5 else "0"}} for i in range(120 if q else 1500)]
    cases += [{"kind": "segment", "index": i, "seed": [seed, 182, i], "env": {"VERIF_X64": "1"}} for i in range(60 if q else 600)]
    cases += [{"kind": "fused", "index": i, "seed": [seed, 183, i], "env": {"VERIF_X64": "1" if i % 4 else "0"}} for i in range(72 if q else 900)]
    cases += [{"kind": "reduction", "index": i, "seed": [seed, 184, i], "env": {"VERIF_X64": "1"}} for i in range(48 if q else 500)]
    return cases


def _np_argmax_oracle(a, axis, where):
    """-> (expected max, mask of acceptable positions, first acceptable) over flattened axes."""
    a = np.asarray(a)
    axis = tuple(range(a.ndim)) if axis is None else ((axis,) if isinstance(axis, int) else tuple(axis))
    front = sorted(set(range(a.ndim)) - set(axis))
    b = a.transpose((*front, *axis)).astype(float)
    b = b.reshape(*b.shape[: len(front)], -1)
    if where is None:
        w = np.ones(b.shape, bool)
    else:
        w = np.asarray(where).transpose((*front, *axis)).reshape(b.shape)
    bm = np.where(w, b, -np.inf)
    mx = bm.max(axis=-1)
    acc = w & (bm == mx[..., None])
    anyw = w.any(axis=-1)
    first = np.where(anyw, np.argmax(acc, axis=-1), 0)
    return mx, acc, first, anyw


def run_case(case):
    from vlib import bootstrap, pipeline
    import jax
    import jax.numpy as jnp

    rng = pipeline.case_rng(case)
    x64 = bootstrap.X64
    res = {"counters": {}, "maxima": {}, "violations": [], "features": {}, "nontrivial": False}
    cnt = res["counters"]

    def add(k, n=1):
        cnt[k] = cnt.get(k, 0) + int(n)

    kind = case["kind"]
    if kind == "unit":
        from lcm.argmax import argmax

        rank = int(rng.integers(1, 5))
        shape = tuple(int(x) for x in rng.integers(1, 6, rank))
        dt = ["float", "int", "ties", "ninf", "near", "huge"][int(rng.integers(0, 6))]
        if dt == "huge":
            # finite values of very large magnitude, mostly far BELOW any single-precision bound
            # (CRRA utility with high risk aversion): only -inf is below all of them
            a = -(10.0 ** rng.uniform(30, 300, shape)) if x64 else -(10.0 ** rng.uniform(10, 37, shape))
            a = np.where(rng.random(shape) < 0.15, -a, a)
        elif dt == "near":
            # near ties: distinct values that agree to ~6 digits (inside any "isclose" tolerance,
            # far above rounding): only the true maximiser has a value EQUAL to the maximum
            a = rng.integers(1, 4, shape).astype(float) * (1.0 + rng.integers(-4, 5, shape) * (3e-7 if x64 else 6e-7))
        elif dt == "ninf":
            # finite values mixed with -inf; sometimes every element is -inf (then the first
            # UNMASKED position attains the masked maximum -inf)
            a = np.where(rng.random(shape) < (1.0 if rng.random() < 0.3 else 0.5), -np.inf, rng.integers(0, 3, shape).astype(float))
        elif dt == "float":
            a = rng.normal(size=shape)
        elif dt == "int":
            a = rng.integers(-50, 50, shape)
        else:
            a = rng.integers(0, 3, shape).astype(float)
        ja = jnp.asarray(a)
        a_used = np.asarray(ja)
        axes_list = [None] + [ax for k in range(1, rank + 1) for ax in itertools.combinations(range(rank), k)]
        if len(axes_list) > 8:
            axes_list = [axes_list[i] for i in rng.permutation(len(axes_list))[:8]]
        if rank >= 2 and rng.random() < 0.5:
            axes_list.append(tuple(reversed(range(rank))))  # unsorted axes order
        nsub = 0
        for axis in axes_list:
            for mk in ("none", "random", "cell_masked", "all_masked"):
                if mk == "none":
                    where = None
                elif mk == "random":
                    where = rng.random(shape) < 0.6
                elif mk == "all_masked":
                    where = np.zeros(shape, bool)
                else:
                    where = rng.random(shape) < 0.7
                    ax = tuple(range(rank)) if axis is None else axis
                    idx = [slice(None) if d in ax else 0 for d in range(rank)]
                    where[tuple(idx)] = False
                # NaN at masked positions only
                a2 = a_used.copy()
                if where is not None and dt != "int" and rng.random() < 0.3:
                    a2 = np.where(where, a2, np.nan)
                use_jit = rng.random() < 0.5
                ax_arg = axis if (axis is None or len(axis) > 1 or rng.random() < 0.5) else axis[0]
                f = (lambda x, w: argmax(x, axis=ax_arg, initial=-np.inf, where=w)) if where is not None else (lambda x, w: argmax(x, axis=ax_arg))
                if use_jit:
                    f = jax.jit(f)
                try:
                    gi, gm = f(jnp.asarray(a2), None if where is None else jnp.asarray(where))
                except Exception as e:  # noqa: BLE001
                    res["violations"].append({"key": pipeline.exc_key(e, "argmax"), "what": pipeline.exc_text(e)})
                    continue
                gi, gm = np.asarray(gi), np.asarray(gm, dtype=float)
                mx, acc, first, anyw = _np_argmax_oracle(np.where(np.isnan(a2), -np.inf, a2) if where is not None else a2, axis, where)
                nsub += 1
                add("argmax_calls")
                add("argmax_cells", mx.size)
                add("argmax_jit_calls", int(use_jit))
                if gi.shape != mx.shape or gm.shape != mx.shape:
                    res["violations"].append({"key": "argmax_shape", "what": f"shape {shape} axis {axis}: result shapes {gi.shape}/{gm.shape}, expected {mx.shape}"})
                    continue
                # the maximum of an empty (fully masked) cell is the caller's `initial`; for
                # integer arrays -inf has no representation, so it is not judged there
                cmp = anyw if dt == "int" else np.ones(mx.shape, bool)
                if not np.array_equal(gm[cmp], mx[cmp]):
                    res["violations"].append({"key": "argmax_max_value", "what": f"shape {shape} axis {axis} mask {mk}: returned maximum differs from the masked maximum"})
                got_ok = np.take_along_axis(acc, gi[..., None].astype(int), axis=-1)[..., 0] if acc.shape[-1] > 0 else np.ones(mx.shape, bool)
                bad = anyw & ~got_ok
                if bad.any():
                    res["violations"].append({"key": "argmax_position_not_maximal", "what": f"shape {shape} axis {axis} mask {mk} jit={use_jit}: {int(bad.sum())}/{bad.size} cells: returned position is masked or does not attain the masked maximum"})
                elif not np.array_equal(gi, first):
                    which = "all_masked_not_zero" if (~anyw & (gi != 0)).any() else "tie_not_first"
                    res["violations"].append({"key": f"argmax_{which}", "what": f"shape {shape} axis {axis} mask {mk}: returned positions {gi.reshape(-1)[:8].tolist()} expected first maximal positions {first.reshape(-1)[:8].tolist()}"})
        # arg-max of a 0-d array (what the continuation policy does for models without continuous choices): nothing is
        # reduced, the position is 0, and the maximum is the element itself where unmasked,
        # else `initial`
        for _ in range(3):
            w0 = bool(rng.random() < 0.5)
            x0 = float(rng.normal())
            for use_jit in (False, True):
                f0 = lambda x, w: argmax(x, axis=None, initial=-np.inf, where=w)  # noqa: E731
                if use_jit:
                    f0 = jax.jit(f0)
                gi0, gm0 = f0(jnp.asarray(x0), jnp.asarray(w0))
                add("argmax_zero_axis_calls")
                exp0 = x0 if w0 else -np.inf
                x_used = float(np.asarray(jnp.asarray(x0)))
                exp0 = x_used if w0 else -np.inf
                if int(np.asarray(gi0)) != 0 or float(np.asarray(gm0)) != exp0:
                    res["violations"].append({"key": "argmax_zero_axes_mask_ignored", "what": f"arg-max of a 0-d array with where={w0}: returned ({int(np.asarray(gi0))}, {float(np.asarray(gm0))!r}), expected (0, {exp0!r})"})
        res["sig"] = f"unit{shape}{dt}"
        res["nontrivial"] = bool(np.prod(shape) >= 2)
        res["sample"] = {"kind": "unit", "shape": list(shape), "values": dt, "axis_subsets": [list(a) if a else None for a in axes_list[:6]], "calls": nsub}
    elif kind == "segment":
        from lcm.argmax import segment_argmax

        rank = int(rng.integers(1, 4))
        nseg = int(rng.integers(1, 9))
        narrow = None
        if case["index"] % 4 == 3:
            # many segments with ids stored in a NARROW integer dtype that holds the number of
            # segments but not the number of rows (ids are a legitimate input of the primitive)
            narrow = [np.uint8, np.int8, np.int16][int(rng.integers(0, 3))]
            nseg = int(rng.integers(60, 121))
            rank = int(rng.integers(1, 3))
        sizes = rng.integers(1, 6, nseg) if narrow is None else rng.integers(2, 7, nseg)
        seg = np.repeat(np.arange(nseg), sizes)
        if narrow is not None:
            seg = seg.astype(narrow)
            add("segment_narrow_id_cases")
        shape = (len(seg),) + tuple(int(x) for x in rng.integers(1, 5, rank - 1))
        ties = rng.random() < 0.4
        near = (not ties) and rng.random() < 0.5
        data = rng.integers(0, 3, shape).astype(float) if ties else rng.normal(size=shape)
        if near:  # near ties (see the unit cases): later rows slightly below / above earlier ones
            data = rng.integers(1, 4, shape).astype(float) * (1.0 + rng.integers(-4, 5, shape) * (3e-7 if x64 else 6e-7))
            add("segment_near_tie_cases")
        mode = int(rng.integers(0, 3))
        try:
            if mode == 0:
                gi, gm = segment_argmax(jnp.asarray(data), jnp.asarray(seg), nseg)
            elif mode == 1:
                gi, gm = jax.jit(segment_argmax, static_argnums=2)(jnp.asarray(data), jnp.asarray(seg), nseg)
            else:
                # producer fused into the same jit
                gi, gm = jax.jit(lambda d, s: segment_argmax(jnp.log1p(jnp.exp(d)) * 1.7 - d * d * 0.3, s, nseg))(jnp.asarray(data), jnp.asarray(seg))
                data = np.log1p(np.exp(np.asarray(jnp.asarray(data), dtype=float))) * 1.7 - np.asarray(jnp.asarray(data), dtype=float) ** 2 * 0.3
        except Exception as e:  # noqa: BLE001
            res["violations"].append({"key": pipeline.exc_key(e, "segment_argmax"), "what": pipeline.exc_text(e)})
            res["status"] = "violated"
            return res
        gi, gm = np.asarray(gi), np.asarray(gm, dtype=float)
        tol = 0.0 if mode < 2 else (1e-12 if x64 else 1e-5)
        d_used = np.asarray(jnp.asarray(data), dtype=float) if mode < 2 else data
        for s in range(nseg):
            rows = np.nonzero(seg == s)[0]
            m = d_used[rows].max(axis=0)
            add("segment_cells", m.size)
            if gi.shape[0] != nseg:
                res["violations"].append({"key": "segment_shape", "what": f"{gi.shape[0]} segments returned, expected {nseg}"})
                break
            if not np.all(((np.abs(gm[s] - m) <= tol * (1 + np.abs(m))) & np.isfinite(m)) | (gm[s] == m)):
                res["violations"].append({"key": "segment_max_value", "what": f"segment {s}: returned maximum differs from the segment maximum"})
                break
            ii = np.asarray(gi[s]).astype(int)
            if not np.all(np.isin(ii, rows)):
                res["violations"].append({"key": "segment_row_outside", "what": f"segment {s} (rows {rows.tolist()}): returned row {ii.reshape(-1)[:5].tolist()} is not a row of the segment (mode {mode})"})
                break
            got = np.take_along_axis(d_used, ii[None, ...], axis=0)[0] if d_used.ndim > 1 else d_used[ii]
            if not np.all(got >= m - tol * (1 + np.abs(m))):
                res["violations"].append({"key": "segment_not_maximal", "what": f"segment {s}: returned row does not attain the segment maximum (mode {mode})"})
                break
        res["sig"] = f"seg{shape}{nseg}{ties}{mode}"
        res["nontrivial"] = bool(len(seg) > nseg)
        res["sample"] = {"kind": "segment", "data_shape": list(shape), "segment_sizes": sizes.tolist(), "ties": bool(ties), "mode": ["eager", "jit", "jit+fused producer"][mode]}
    elif kind == "fused":
        from lcm.dispatchers import spacemap
        from lcm.entry_point import create_compute_conditional_continuation_policy, create_compute_conditional_continuation_value

        k = [1, 2, 2, 3][int(rng.integers(0, 4))]
        sizes = [int(x) for x in rng.integers(2, 12, k)]
        grids = {f"c{i}": np.linspace(0.3 + 0.1 * i, 3.0 + i, sizes[i]) for i in range(k)}
        B = int(rng.integers(8, 200))
        form = int(rng.integers(0, 6))
        cs = list(grids)
        coef = [round(float(x), 4) for x in rng.uniform(0.2, 1.5, 6)]
        if form == 0:
            body = " + ".join(f"{coef[i]} * xp.log({c} + 0.1 * s)" for i, c in enumerate(cs)) + f" + {coef[3]} * xp.sqrt(s + " + " + ".join(cs) + ")"
        elif form == 1:
            body = " * ".join(f"xp.exp(-{coef[i]} * {c})" for i, c in enumerate(cs)) + " * xp.sin(s + " + " + ".join(cs) + ")"
        elif form == 2:
            body = " + ".join(f"{coef[i]} * {c} - 0.{i + 1} * {c} ** 2 * s" for i, c in enumerate(cs)) + " + 0.01 * s ** 3"
        elif form == 3:
            body = f"xp.log(s + {coef[0]}) - " + " - ".join(f"({c} - s * {coef[i + 1]}) ** 2" for i, c in enumerate(cs))
        else:
            # the structure lcm itself produces: utility + beta * interpolated continuation value
            body = " + ".join(f"{coef[i]} * xp.log({c})" for i, c in enumerate(cs)) + f" + 0.{93 + form} * xp.interp(1.04 * (s - 0.3 * (" + " + ".join(cs) + ")) + 0.7, VGRID, VVALS)"
        feas = " + ".join(cs) + f" <= s * {round(1.0 + k * 0.8, 2)} + 0.5"
        # the function's own signature order is NOT the order in which the variables are listed for
        # the product (the listed order defines the axes of the flat position)
        sig_cs = [str(x) for x in rng.permutation(cs)] if case["index"] % 2 else list(cs)
        src = f"def u_and_f({', '.join(sig_cs[:1] + ['s'] + sig_cs[1:]) if case['index'] % 4 == 1 else 's, ' + ', '.join(sig_cs)}):\n    return {body}, {feas}\n"
        vgrid = np.linspace(-2.0, 9.0, 12)
        vvals = np.cumsum(rng.uniform(0.1, 1.0, 12)) ** 0.7
        nsj, nsn = {"xp": jnp, "VGRID": jnp.asarray(vgrid), "VVALS": jnp.asarray(vvals)}, {"xp": np, "VGRID": vgrid, "VVALS": np.asarray(jnp.asarray(vvals), dtype=float)}
        exec(src, nsj)  # noqa: S102
        exec(src, nsn)  # noqa: S102
        s_vals = np.sort(rng.uniform(0.2, 6.0, B))
        try:
            pol = create_compute_conditional_continuation_policy(nsj["u_and_f"], cs)
            val = create_compute_conditional_continuation_value(nsj["u_and_f"], cs)
            put_first = bool(rng.random() < 0.5)
            fpol = jax.jit(spacemap(pol, dense_vars=[], sparse_vars=["s"], put_dense_first=put_first))
            fval = jax.jit(spacemap(val, dense_vars=[], sparse_vars=["s"], put_dense_first=put_first))
            jg = {c: jnp.asarray(g) for c, g in grids.items()}
            gi, gm = fpol(s=jnp.asarray(s_vals), **jg)
            gv = fval(s=jnp.asarray(s_vals), **jg)
        except Exception as e:  # noqa: BLE001
            res["violations"].append({"key": pipeline.exc_key(e, "fused_policy"), "what": pipeline.exc_text(e)})
            res["status"] = "violated"
            return res
        gi, gm, gv = np.asarray(gi).astype(int), np.asarray(gm, dtype=float), np.asarray(gv, dtype=float)
        s_used = np.asarray(jnp.asarray(s_vals), dtype=float)
        env = {"s": s_used.reshape((B,) + (1,) * k)}
        for i, c in enumerate(cs):
            sh = [1] * (k + 1)
            sh[i + 1] = sizes[i]
            env[c] = np.asarray(jg[c], dtype=float).reshape(sh)
        with np.errstate(all="ignore"):
            U, Fm = nsn["u_and_f"](**env)
        U = np.broadcast_to(U, (B, *sizes)).reshape(B, -1)
        Fm = np.broadcast_to(Fm, (B, *sizes)).reshape(B, -1)
        Um = np.where(Fm, U, -np.inf)
        mx = Um.max(axis=1)
        anyf = Fm.any(axis=1)
        tol = 1e-9 if x64 else 2e-4
        add("fused_cells", B)
        add(f"fused_axes_{k}", B)
        picked = Um[np.arange(B), np.clip(gi, 0, Um.shape[1] - 1)]
        with np.errstate(all="ignore"):
            bad = anyf & ~((mx - picked) <= tol * (1 + np.abs(mx)))
            badm = anyf & ~(np.abs(gm - mx) <= tol * (1 + np.abs(mx)))
            badv = anyf & ~(np.abs(gv - mx) <= tol * (1 + np.abs(mx)))
        res["maxima"]["fused_max_gap"] = float(np.max(np.where(anyf, (mx - picked) / (1 + np.abs(mx)), 0.0)))
        if gi.shape != (B,):
            res["violations"].append({"key": "fused_shape", "what": f"policy shape {gi.shape} expected ({B},)"})
        elif bad.any():
            res["violations"].append({"key": "argmax_position_not_maximal_fused", "what": f"{k} product axes {sizes}, batch {B}, producer form {form}: {int(bad.sum())}/{B} cells: position returned inside the jitted computation does not attain the feasible maximum (e.g. cell {int(np.nonzero(bad)[0][0])}: position {int(gi[np.nonzero(bad)[0][0]])}, value {picked[np.nonzero(bad)[0][0]]!r} vs max {mx[np.nonzero(bad)[0][0]]!r})"})
        if badm.any() or badv.any():
            res["violations"].append({"key": "fused_max_value", "what": f"{k} product axes: returned maximum differs from the feasible maximum in {int(badm.sum())}+{int(badv.sum())} cells"})
        if (~anyf & (gi != 0)).any():
            res["violations"].append({"key": "fused_all_masked_not_zero", "what": "cell with no feasible element does not return position 0"})
        res["sig"] = f"fused{k}{sizes}{form}"
        res["nontrivial"] = True
        res["sample"] = {"kind": "fused", "product_axes": sizes, "batch": B, "u_and_f": src}
    else:  # reduction
        from lcm.discrete_problem import get_solve_discrete_problem
        from lcm.input_processing import process_model
        from lcm.state_space import create_state_choice_space
        from lcm.typing import ShockType

        from vlib import dsl
        from vlib.refmodel import Ref

        nsS, nsC = int(rng.integers(0, 3)), int(rng.integers(0, 3))
        ndS, ndC = int(rng.integers(0, 3)), int(rng.integers(0, 3))
        if nsC and not nsS:
            nsS = 1
        if nsS + ndS == 0:
            ndS = 1
        st = [[f"s{i}", {"kind": "disc", "n": int(rng.integers(2, 4))}] for i in range(nsS)] + [[f"e{i}", {"kind": "disc", "n": int(rng.integers(2, 4))}] for i in range(ndS)]
        ch = [[f"c{i}", {"kind": "disc", "n": int(rng.integers(2, 4))}] for i in range(nsC)] + [[f"d{i}", {"kind": "disc", "n": int(rng.integers(2, 4))}] for i in range(ndC)]
        if rng.random() < 0.5:
            st.append(["w", {"kind": "lin", "start": 1.0, "stop": 2.0, "n": int(rng.integers(2, 4))}])
        sp = [v for v, _ in st[:nsS]] + [v for v, _ in ch[:nsC]]
        names = [v for v, _ in st + ch]
        fns = [["utility", names, " + ".join(f"0.1 * {a}" for a in names)]] + [[f"next_{s}", [s], s] for s, _ in st]
        tables = {}
        if sp:
            sizes = dict((v, s["n"]) for v, s in st + ch)
            tab = rng.random([sizes[v] for v in sp]) < 0.7
            tab.flat[0] = True
            tables["FT"] = tab.tolist()
            fns.append(["a_filter", sp, f"FT[{', '.join(sp)}]"])
        st = [st[i] for i in rng.permutation(len(st))]
        ch = [ch[i] for i in rng.permutation(len(ch))]
        desc = {"n_periods": 2, "states": st, "choices": ch, "functions": fns, "stochastic": [], "tables": tables, "params": {}}
        ref = Ref(desc)
        try:
            im = process_model(dsl.build_lcm_model(desc))
            _, _, _, segs = create_state_choice_space(model=im, period=0, is_last_period=False, jit_filter=False)
            calc = get_solve_discrete_problem(random_utility_shock_type=ShockType.NONE, variable_info=im.variable_info, is_last_period=False, choice_segments=segs)
            fm = ref.filter_mask(0)
            lead = (int(fm.sum()),) if fm is not None else ()
            dense = ref.dense_disc_states + ref.dense_disc_choices + ref.cont_states
            shape = lead + tuple(len(ref.grid[v]) for v in dense)
            cc = rng.normal(size=shape)
            got = np.asarray((jax.jit(calc) if rng.random() < 0.5 else calc)(jnp.asarray(cc), params={}), dtype=float)
        except Exception as e:  # noqa: BLE001
            res["violations"].append({"key": pipeline.exc_key(e, "reduction"), "what": pipeline.exc_text(e)})
            res["status"] = "violated"
            return res
        cc = np.asarray(jnp.asarray(cc), dtype=float)
        # python loop over states: expected[state] = max over all discrete choice combos
        dense_states = ref.dense_disc_states + ref.cont_states
        exp_shape = ((ref.expected_space(0)["num_segments"],) if ref.sparse_states else ()) + tuple(len(ref.grid[v]) for v in dense_states)
        exp = np.full(exp_shape, -np.inf)
        seg_ids = ref.expected_space(0)["segment_ids"] if ref.sparse_states else None
        for idx in np.ndindex(*shape):
            pos = 0
            key = []
            if lead:
                key.append(int(seg_ids[idx[0]]) if seg_ids is not None else None)
                pos = 1
            for j, v in enumerate(dense):
                if v in dense_states:
                    key.append(idx[pos + j])
            if lead and seg_ids is None:
                # restricted choices without restricted states cannot occur (nsC => nsS)
                key = key[1:]
            exp[tuple(key)] = max(exp[tuple(key)], cc[idx])
        add("reduction_states", exp.size)
        if got.shape != exp.shape:
            res["violations"].append({"key": "reduction_shape", "what": f"reduced array has shape {got.shape}, expected {exp.shape} (states only)"})
        elif not np.array_equal(got, exp):
            res["violations"].append({"key": "reduction_value", "what": f"reduction over discrete choices differs from the loop maximum in {int((got != exp).sum())}/{exp.size} states; variable order {ref.order}"})
        res["sig"] = f"red{dsl.shape_signature(desc)}{shape}"
        res["nontrivial"] = bool(nsC + ndC > 0)
        res["sample"] = {"kind": "reduction", "order": ref.order, "cc_shape": list(shape), "state_shape": list(exp_shape)}
    res["features"] = {kind: True, "x64_off": not x64}
    res["status"] = "violated" if res["violations"] else "held"
    return res
