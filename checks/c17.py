"""C17 - the state-choice space contains exactly the filter-passing combinations."""
import itertools

import numpy as np

ID = "C17"
LEVEL = "exploration"
RULE = (
    "direct calls of lcm.state_space.create_state_choice_space(process_model(model), period, "
    "is_last_period=.., jit_filter=..) for every period. exhaustive part: for restricted-variable shapes "
    "(1 state x 1 choice) 2x2, 2x3, 3x2 and (2 states x 1 choice / 1 state x 2 choices) 2x2x2 EVERY boolean "
    "filter table with >= 1 passing combination is enumerated (15+63+63+255+255 masks); sampled part: 1-3 "
    "table filters over 1-3 restricted states and 0-3 restricted choices incl. _period, with additional "
    "unrestricted discrete and continuous variables in shuffled declaration order. oracle = itertools-style "
    "enumeration (reference): stored combinations exact/no duplicates/row-major in canonical order, "
    "indexer = rank or -1, segment ids, num_segments, dense variables = full grids in canonical order. "
    "non-trivial = mask with >= 1 excluded combination; distinct = distinct (shape, mask bytes, period)."
)
ASSUMPTIONS = ["reference enumeration (numpy argwhere over the mask computed from the same filter text in numpy)"]
BATCH = {"quick": 2, "thorough": 4}
FLOORS = {"quick": {"spaces_checked": 700, "combinations_compared": 3000}, "thorough": {"spaces_checked": 2000, "combinations_compared": 15000}}

SHAPES = [((2,), (2,)), ((2,), (3,)), ((3,), (2,)), ((2, 2), (2,)), ((2,), (2, 2))]


def plan(tier, seed):
    cases = []
    for si, (ss, cs) in enumerate(SHAPES):
        n = int(np.prod(ss + cs))
        total = 2 ** n - 1
        chunks = 2 if total < 100 else 8
        for k in range(chunks):
            cases.append({"kind": "exhaustive", "shape": si, "chunk": k, "chunks": chunks, "seed": [seed, 171, si, k], "env": {"VERIF_X64": "1"}})
    m = 90 if tier == "quick" else 900
    for i in range(m):
        cases.append({"kind": "sampled", "index": i, "seed": [seed, 172, i], "env": {"VERIF_X64": "1"}})
    return cases


def _desc_for_mask(ss, cs, mask, rng=None, extra=True):
    """Model with restricted states of sizes ss, restricted choices cs, one table filter."""
    states = [[f"s{i}", {"kind": "disc", "n": n}] for i, n in enumerate(ss)]
    choices = [[f"c{i}", {"kind": "disc", "n": n}] for i, n in enumerate(cs)]
    names = [s[0] for s in states] + [c[0] for c in choices]
    fns = [["t_filter", list(names), f"FT[{', '.join(names)}]"]]
    uargs = list(names)
    if extra:
        states.append(["w", {"kind": "lin", "start": 1.0, "stop": 5.0, "n": 3}])
        states.append(["e", {"kind": "disc", "n": 2}])
        choices.append(["x", {"kind": "lin", "start": 0.5, "stop": 2.0, "n": 4}])
        choices.append(["d", {"kind": "disc", "n": 3}])
        uargs += ["w", "e", "x", "d"]
    fns.append(["utility", uargs, " + ".join(f"0.1 * {a}" for a in uargs)])
    for s, _ in states:
        fns.append([f"next_{s}", [s], s])
    return {"n_periods": 2, "states": states, "choices": choices, "functions": fns, "stochastic": [],
            "tables": {"FT": np.asarray(mask).tolist()}, "params": {}}


def check_space(desc, res, add, jit_filter, periods=None):
    from lcm.input_processing import process_model
    from lcm.state_space import create_state_choice_space

    from vlib import dsl, pipeline
    from vlib.refmodel import Ref

    ref = Ref(desc)
    try:
        model = process_model(dsl.build_lcm_model(desc))
    except Exception as e:  # noqa: BLE001
        res["violations"].append({"key": pipeline.exc_key(e, "process_model"), "what": pipeline.exc_text(e)})
        return
    T = desc["n_periods"]
    for t in (periods if periods is not None else range(T)):
        exp = ref.expected_space(t)
        for last in ((t == T - 1),):
            try:
                space, info, indexers, segments = create_state_choice_space(model=model, period=t, is_last_period=last, jit_filter=jit_filter)
            except Exception as e:  # noqa: BLE001
                res["violations"].append({"key": pipeline.exc_key(e, "create_state_choice_space"), "what": pipeline.exc_text(e) + f" period={t}"})
                continue
            add("spaces_checked")
            sv = {k: np.asarray(v) for k, v in space.sparse_vars.items()}
            if list(sv) != ref.sparse_vars:
                res["violations"].append({"key": "sparse_var_order", "what": f"period {t}: stored restricted variables {list(sv)} expected canonical order {ref.sparse_vars}"})
                continue
            if exp is not None:
                add("combinations_compared", exp["n"])
                for v in ref.sparse_vars:
                    if sv[v].shape != exp["stored"][v].shape or not np.array_equal(sv[v], exp["stored"][v]):
                        res["violations"].append({"key": "stored_combinations", "what": f"period {t}: stored combinations of {v} = {sv[v].tolist()[:12]} expected {exp['stored'][v].tolist()[:12]} (row-major filter-passing combinations)"})
                        break
                if ref.sparse_states:
                    si = indexers.get("state_indexer") if isinstance(indexers, dict) else None
                    if si is None or not np.array_equal(np.asarray(si), exp["indexer"]):
                        res["violations"].append({"key": "state_indexer", "what": f"period {t}: state indexer {None if si is None else np.asarray(si).tolist()} expected {exp['indexer'].tolist()}"})
                    if segments is None or not np.array_equal(np.asarray(segments["segment_ids"]), exp["segment_ids"]):
                        res["violations"].append({"key": "segment_ids", "what": f"period {t}: segment ids {None if segments is None else np.asarray(segments['segment_ids']).tolist()[:20]} expected {exp['segment_ids'].tolist()[:20]}"})
                    elif int(segments["num_segments"]) != exp["num_segments"]:
                        res["violations"].append({"key": "num_segments", "what": f"period {t}: num_segments {segments['num_segments']} expected {exp['num_segments']}"})
            else:
                if sv:
                    res["violations"].append({"key": "sparse_without_filters", "what": "restricted variables stored although the model has no filters"})
            dv = {k: np.asarray(v) for k, v in space.dense_vars.items()}
            exp_dense = ref.dense_disc_states + ref.dense_disc_choices + ref.cont_states
            if list(dv) != exp_dense:
                res["violations"].append({"key": "dense_var_order", "what": f"period {t}: dense variables {list(dv)} expected {exp_dense}"})
            else:
                for v in exp_dense:
                    g = ref.grid[v]
                    if dv[v].shape != g.shape or np.max(np.abs(dv[v] - g)) > 1e-12 * (1 + np.abs(g).max()):
                        res["violations"].append({"key": "dense_grid", "what": f"period {t}: dense variable {v} is not stored as its full grid"})
            exp_axes = (["state_index"] if ref.sparse_states else []) + ref.dense_disc_states + ref.cont_states
            if list(info.axis_names) != exp_axes:
                res["violations"].append({"key": "axis_names", "what": f"period {t}: axis_names {list(info.axis_names)} expected {exp_axes}"})


def check_used_structures(desc, res, add):
    """W10: the spaces and choice segments that the generated solve function really holds
    for each period (keywords of the returned functools.partial) must be the ones the
    statement describes for THAT period.  If the generated function is not a partial with
    these keywords the monitor is 'unavailable' (never a verdict)."""
    from vlib import dsl, pipeline
    from vlib.refmodel import Ref

    ref = Ref(desc)
    T = desc["n_periods"]
    try:
        f, _ = pipeline.get_lcm_function(dsl.build_lcm_model(desc), "solve", jit=False)
    except Exception as e:  # noqa: BLE001
        res["violations"].append({"key": pipeline.exc_key(e, "get_lcm_function"), "what": pipeline.exc_text(e)})
        return
    kw = getattr(f, "keywords", None) or {}
    spaces, calcs = kw.get("state_choice_spaces"), kw.get("emax_calculators")
    if not isinstance(spaces, list) or not isinstance(calcs, list) or len(spaces) != T or len(calcs) != T:
        add("w10_unavailable")
        return
    add("w10_functions_inspected")
    for t in range(T):
        exp = ref.expected_space(t)
        if exp is None:
            continue
        try:
            sv = {k: np.asarray(v) for k, v in spaces[t].sparse_vars.items()}
        except Exception:  # noqa: BLE001
            add("w10_unavailable")
            return
        add("w10_periods_checked")
        for v in ref.sparse_vars:
            if v in sv and (sv[v].shape != exp["stored"][v].shape or not np.array_equal(sv[v], exp["stored"][v])):
                res["violations"].append({"key": "used_space_of_other_period", "what": f"the space held by the solve function for period {t} stores {v} = {sv[v].tolist()[:12]}; the filter-passing combinations of period {t} are {exp['stored'][v].tolist()[:12]}"})
                break
        seg = (getattr(calcs[t], "keywords", None) or {}).get("choice_segments", "absent")
        if isinstance(seg, str):
            add("w10_segments_unavailable")
            continue
        if ref.sparse_states and isinstance(seg, dict) and "segment_ids" in seg and "num_segments" in seg:
            add("w10_segments_checked")
            ids = np.asarray(seg["segment_ids"])
            if ids.shape != exp["segment_ids"].shape or not np.array_equal(ids, exp["segment_ids"]) or int(seg["num_segments"]) != exp["num_segments"]:
                res["violations"].append({"key": "used_segments_of_other_period", "what": f"the choice segments held by the solve function for period {t} are {ids.tolist()[:16]} (num {int(seg['num_segments'])}); grouping the stored combinations of period {t} by state rank gives {exp['segment_ids'].tolist()[:16]} (num {exp['num_segments']})"})


def run_case(case):
    from vlib import pipeline

    rng = pipeline.case_rng(case)
    res = {"counters": {}, "maxima": {}, "violations": [], "features": {}, "nontrivial": False}
    cnt = res["counters"]

    def add(k, n=1):
        cnt[k] = cnt.get(k, 0) + n

    if case["kind"] == "exhaustive":
        ss, cs = SHAPES[case["shape"]]
        shape = ss + cs
        n = int(np.prod(shape))
        nmasks = 0
        for bits in range(1, 2 ** n):
            if bits % case["chunks"] != case["chunk"]:
                continue
            mask = np.array([(bits >> i) & 1 for i in range(n)], bool).reshape(shape)
            desc = _desc_for_mask(ss, cs, mask, extra=(bits % 5 == 0))
            check_space(desc, res, add, jit_filter=(bits % 7 == 0), periods=[0])
            nmasks += 1
        add("masks_enumerated", nmasks)
        res["sig"] = f"ex{case['shape']}.{case['chunk']}"
        res["nontrivial"] = True
        res["distinct"] = nmasks
        res["sample"] = {"kind": "exhaustive", "restricted_state_sizes": list(ss), "restricted_choice_sizes": list(cs), "masks_in_chunk": nmasks}
    else:
        ns = int(rng.integers(1, 4))
        nc = int(rng.integers(0, 4))
        ss = tuple(int(x) for x in rng.integers(2, 4, ns))
        cs = tuple(int(x) for x in rng.integers(2, 4, nc))
        if case["index"] % 8 == 5:
            # many categories: hundreds of feasible restricted-state combinations and stored rows
            ns, nc = 2, int(rng.integers(0, 2))
            ss = tuple(int(x) for x in rng.integers(14, 21, 2))
            cs = tuple(int(x) for x in rng.integers(2, 4, nc))
            add("large_restricted_spaces")
        T = int(rng.integers(1, 5))
        snames = [f"s{i}" for i in range(ns)]
        cnames = [f"c{i}" for i in range(nc)]
        states = [[s, {"kind": "disc", "n": n}] for s, n in zip(snames, ss)]
        choices = [[c, {"kind": "disc", "n": n}] for c, n in zip(cnames, cs)]
        sizes = dict(zip(snames + cnames, ss + cs))
        nf = int(rng.integers(1, 4))
        fns, tables = [], {}
        covered = set()
        for j in range(nf):
            k = int(rng.integers(1, ns + nc + 1))
            args = [str(x) for x in rng.permutation(snames + cnames)[:k]]
            if not any(a in snames for a in args):
                args.append(str(rng.choice(snames)))
            if j == nf - 1:
                for v in snames + cnames:
                    if v not in covered and v not in args and rng.random() < 0.7:
                        args.append(v)
            covered |= set(args)
            usep = rng.random() < 0.4
            dims = [sizes[a] for a in args] + ([T] if usep else [])
            tab = rng.random(dims) < 0.7
            tables[f"FT{j}"] = tab.tolist()
            fns.append([f"f{j}_filter", args + (["_period"] if usep else []), f"FT{j}[{', '.join(args + (['_period'] if usep else []))}]"])
        scalar_functions = []
        if rng.random() < 0.35:
            # a filter written for scalars: it reduces over its own stacked conditions (valid user
            # code under lcm's contract that functions are called with scalars)
            a0 = str(rng.choice(snames))
            b0 = str(rng.choice(cnames)) if cnames else a0
            fns.append(["red_filter", list(dict.fromkeys([a0, b0])),
                        f"xp.any(xp.asarray([{a0} == {int(rng.integers(0, sizes[a0]))}, {b0} >= {int(rng.integers(0, sizes[b0]))}]))"])
            scalar_functions.append("red_filter")
        if case["index"] % 3 == 1:
            # a filter that does ARITHMETIC on the category codes with negative intermediate results
            # (adjustment limits: |c - s| <= k, c - s <= k)
            a0 = str(rng.choice(snames))
            b0 = str(rng.choice(cnames)) if cnames else str(rng.choice([x for x in snames if x != a0] or [a0]))
            if a0 != b0:
                k = int(rng.integers(0, 2))
                fns.append(["diff_filter", [a0, b0], [f"xp.abs({b0} - {a0}) <= {k + 1}", f"{b0} - {a0} <= {k}", f"{a0} - {b0} >= {-k}", f"({b0} - {a0}) * 2 + 1 <= {2 * k + 1}"][int(rng.integers(0, 4))]])
                add("code_difference_filters")
        # extra unrestricted variables
        if rng.random() < 0.7:
            states.append(["w", {"kind": "lin", "start": 1.0, "stop": 5.0, "n": int(rng.integers(2, 5))}])
        if rng.random() < 0.5:
            states.append(["e", {"kind": "disc", "n": int(rng.integers(2, 4))}])
        if rng.random() < 0.5:
            choices.append(["x", {"kind": "log", "start": 0.5, "stop": 2.0, "n": int(rng.integers(1, 5))}])
        if rng.random() < 0.5:
            choices.append(["d", {"kind": "disc", "n": int(rng.integers(2, 4))}])
        states = [states[i] for i in rng.permutation(len(states))]
        choices = [choices[i] for i in rng.permutation(len(choices))]
        names = [s[0] for s in states] + [c[0] for c in choices]
        fns.append(["utility", names, " + ".join(f"0.1 * {a}" for a in names)])
        for s, _ in states:
            fns.append([f"next_{s}", [s], s])
        fns = [fns[i] for i in rng.permutation(len(fns))]
        desc = {"n_periods": T, "states": states, "choices": choices, "functions": fns, "stochastic": [], "tables": tables, "params": {},
                "scalar_functions": scalar_functions}
        from vlib.refmodel import Ref

        ref = Ref(desc)
        if any(not ref.filter_mask(t).any() for t in range(T)):
            return {"status": "screened", "counters": {"screened_out": 1}, "nontrivial": False, "sig": None}
        check_space(desc, res, add, jit_filter=bool(rng.random() < 0.5))
        check_used_structures(desc, res, add)
        res["sig"] = str((ss, cs, T, nf, [f[1] for f in fns if f[0].endswith("_filter")]))
        res["nontrivial"] = any(not ref.filter_mask(t).all() for t in range(T))
        res["sample"] = {"kind": "sampled", "desc": {k: v for k, v in desc.items() if k != "tables"}}
    res["features"] = {case["kind"]: True, "code_difference_filter": bool(res["counters"].get("code_difference_filters")), "scalar_style_filter": bool(case["kind"] == "sampled" and res.get("sample", {}).get("desc", {}).get("scalar_functions"))}
    res["status"] = "violated" if res["violations"] else "held"
    return res


def aggregate(results, tier):
    ex = [r for r in results if r.get("status") in ("held", "violated") and "distinct" in r]
    nm = sum(r["distinct"] for r in ex)
    ns = sum(1 for r in results if r.get("status") in ("held", "violated") and "distinct" not in r and r.get("nontrivial"))
    exp_total = sum(2 ** int(np.prod(a + b)) - 1 for a, b in SHAPES)
    return {"distinct_nontrivial": int(nm + ns), "evaluations": int(nm + sum(1 for r in results if r.get("status") in ("held", "violated") and "distinct" not in r)),
            "exhaustive_subspaces": {"all boolean filter tables with >=1 passing combination for restricted shapes 2x2, 2x3, 3x2, 2x2x2(2 states), 2x2x2(2 choices)": f"{nm}/{exp_total} masks enumerated"},
            "inconclusive": [] if nm == exp_total else [f"exhaustive enumeration incomplete: {nm}/{exp_total}"]}
