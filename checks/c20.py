"""C20 - extreme-value aggregation of choice values is an exact, stable log-sum-exp."""
import itertools

import numpy as np

ID = "C20"
LEVEL = "exploration"
RULE = (
    "cases = random value arrays (rank 1-4; magnitudes up to 1e6; patterns: generic, all equal, one "
    "dominant, widely spread) x choice-axis subsets x random sorted segmentations with non-empty segments x "
    "scales 1e-8..1e8 (bounded so that value/scale is representable) x eager|jit x x64 on/off, "
    "jax_debug_nans on, for lcm.discrete_problem._calculate_emax_extreme_value_shocks and "
    "_segment_logsumexp. oracle = shifted log-sum-exp in numpy longdouble; laws checked per output cell: "
    "finite, max <= out <= max + s*log(n), shift equivariance, out -> max as s -> 0, axis layout == segment "
    "layout. non-trivial = >= 2 choices per state; distinct = (shape, axes, segmentation, scale decade, pattern)."
)
ASSUMPTIONS = ["numpy longdouble log-sum-exp as oracle", "|value/scale| <= 1e300 (x64) resp. 1e30 (f32): beyond that value/scale itself overflows for any implementation"]
BATCH = {"quick": 15, "thorough": 40}
FLOORS = {"quick": {"cells_compared": 1000, "law_checks": 3000, "segment_layout_equivalences": 60},
          "thorough": {"cells_compared": 10000, "law_checks": 30000, "segment_layout_equivalences": 600}}


def plan(tier, seed):
    n = 210 if tier == "quick" else 2400
    return [{"index": i, "seed": [seed, 201, i], "env": {"VERIF_X64": "1" if i % 4 else "0"}} for i in range(n)]


def ref_lse(v, s, axes=None, seg=None, nseg=None):
    """s * log(sum(exp(v/s))) over axes, then over segments of the leading axis."""
    x = np.asarray(v, dtype=np.longdouble) / np.longdouble(s)
    if axes:
        m = x.max(axis=axes, keepdims=True)
        x = (m + np.log(np.exp(x - m).sum(axis=axes, keepdims=True))).squeeze(axis=axes)
    if seg is not None:
        out = np.empty((nseg,) + x.shape[1:], dtype=np.longdouble)
        for k in range(nseg):
            sub = x[seg == k]
            m = sub.max(axis=0)
            out[k] = m + np.log(np.exp(sub - m).sum(axis=0))
        x = out
    return np.asarray(x * np.longdouble(s), dtype=float)


def ref_max_n(v, axes=None, seg=None, nseg=None):
    x = np.asarray(v, dtype=float)
    n = np.ones((), dtype=float)
    if axes:
        n = n * np.prod([x.shape[a] for a in axes])
        x = x.max(axis=axes)
    cnt = np.full(x.shape, float(n))
    if seg is not None:
        out = np.empty((nseg,) + x.shape[1:])
        c = np.empty((nseg,) + x.shape[1:])
        for k in range(nseg):
            out[k] = x[seg == k].max(axis=0)
            c[k] = n * (seg == k).sum()
        x, cnt = out, c
    return x, cnt


def run_case(case):
    from vlib import bootstrap, pipeline
    import jax
    import jax.numpy as jnp
    from lcm import discrete_problem as dp

    jax.config.update("jax_debug_nans", True)
    rng = pipeline.case_rng(case)
    x64 = bootstrap.X64
    eps = 2.3e-16 if x64 else 1.2e-7
    res = {"counters": {}, "maxima": {}, "violations": [], "features": {}, "nontrivial": False}
    cnt = res["counters"]

    def add(k, n=1):
        cnt[k] = cnt.get(k, 0) + int(n)

    rank = int(rng.integers(1, 5))
    use_seg = bool(rng.random() < 0.6)
    if use_seg:
        nseg = int(rng.integers(1, 7))
        sizes = rng.integers(1, 6, nseg)
        seg = np.repeat(np.arange(nseg), sizes)
        lead = len(seg)
    else:
        nseg, seg, lead = None, None, int(rng.integers(1, 6))
    shape = (lead,) + tuple(int(x) for x in rng.integers(1, 5, rank - 1))
    cand_axes = list(range(1 if use_seg else 0, rank))
    subsets = [None] + [a for k in range(1, len(cand_axes) + 1) for a in itertools.combinations(cand_axes, k)]
    axes = subsets[int(rng.integers(0, len(subsets)))]
    if not use_seg and axes is None:
        axes = (0,)
    mag = float(10 ** rng.uniform(-2, 6))
    pattern = ["generic", "all_equal", "one_dominant", "spread"][int(rng.integers(0, 4))]
    if pattern == "generic":
        v = rng.normal(size=shape) * mag
    elif pattern == "all_equal":
        v = np.full(shape, rng.normal() * mag)
    elif pattern == "one_dominant":
        v = rng.normal(size=shape)
        v.flat[int(rng.integers(0, v.size))] += mag
    else:
        v = rng.choice([-1.0, 1.0], size=shape) * 10 ** rng.uniform(-3, 6, size=shape)
    vmax = max(np.abs(v).max(), 1e-30)
    lo = max(-8.0, np.log10(vmax) - (300 if x64 else 30))
    scale = float(10 ** rng.uniform(lo, 8))
    int_vals = case["index"] % 5 == 4
    if int_vals:
        # integer-TYPED continuation values (integer pay-offs) with a non-integer scale
        v = rng.integers(-20, 21, shape)
        scale = float(np.round(rng.uniform(0.2, 5.0), 3))
        pattern = "integer_typed"
        add("integer_typed_value_cases")
    jv = jnp.asarray(v)
    v_used = np.asarray(jv, dtype=float)
    s_used = float(np.asarray(jnp.asarray(scale))) if not x64 else scale
    segs = None if not use_seg else {"segment_ids": jnp.asarray(seg), "num_segments": nseg}
    params = {"additive_utility_shock": {"scale": scale}}
    use_jit = bool(rng.random() < 0.5)

    # the scale in the representations a params leaf can have
    rep = [float, np.float64, (lambda z: jnp.asarray(z)), (lambda z: np.asarray(z))][case["index"] % 4]

    def call(vals, sc):
        sc = rep(sc)
        f = lambda x, s: dp._calculate_emax_extreme_value_shocks(x, axes, segs, {"additive_utility_shock": {"scale": s}})  # noqa: E731
        if use_jit:
            f = jax.jit(f)
        return np.asarray(f(jnp.asarray(vals), sc), dtype=float)

    try:
        got = call(v, scale)
    except FloatingPointError as e:
        res["violations"].append({"key": "nan_produced", "what": f"jax_debug_nans: NaN produced for finite inputs (shape {shape}, axes {axes}, scale {scale:.3g}, pattern {pattern}): {str(e)[:120]}"})
        res["status"] = "violated"
        return res
    except Exception as e:  # noqa: BLE001
        res["violations"].append({"key": pipeline.exc_key(e, "emax"), "what": pipeline.exc_text(e)})
        res["status"] = "violated"
        return res
    exp = ref_lse(v_used, s_used, axes, seg, nseg)
    mx, n = ref_max_n(v_used, axes, seg, nseg)
    add("cells_compared", exp.size)
    label = f"shape {shape} axes {axes} segments {None if seg is None else sizes.tolist()} scale {scale:.3g} pattern {pattern} jit={use_jit}"
    tol = 64 * eps * (np.abs(mx) + s_used * np.log(np.maximum(n, 1)) + s_used) + 1e-300
    if got.shape != exp.shape:
        res["violations"].append({"key": "shape", "what": f"{label}: output shape {got.shape} expected {exp.shape}"})
    else:
        if not np.all(np.isfinite(got)):
            res["violations"].append({"key": "not_finite", "what": f"{label}: non-finite output for finite inputs"})
        else:
            dev = np.abs(got - exp)
            res["maxima"]["max_dev_over_tol"] = float((dev / tol).max())
            if np.any(dev > tol):
                i0 = np.unravel_index(np.argmax(dev / tol), dev.shape)
                res["violations"].append({"key": "value_mismatch", "what": f"{label}: got {got[i0]!r} expected s*log(sum(exp(v/s)))={exp[i0]!r}"})
            add("law_checks", got.size)
            if np.any(got < mx - tol) or np.any(got > mx + s_used * np.log(n) + tol):
                res["violations"].append({"key": "bounds", "what": f"{label}: result outside [max, max + s*log(n)]"})
            # shift equivariance
            c = float(rng.normal() * mag)
            try:
                got_c = call(v_used + c, scale)
                add("law_checks", got.size)
                tolc = tol + 64 * eps * (abs(c) + np.abs(mx))
                if np.any(np.abs(got_c - (got + c)) > tolc):
                    res["violations"].append({"key": "shift_equivariance", "what": f"{label}: adding c={c:.4g} to all values does not shift the result by c"})
            except FloatingPointError:
                res["violations"].append({"key": "nan_produced", "what": f"{label}: NaN after shifting values by {c:.4g}"})
            # s -> 0
            s_small = max(scale * 1e-6, vmax * (1e-290 if x64 else 1e-28), 1e-30 if x64 else 1e-20)
            try:
                got_s = call(v, s_small)
                add("law_checks", got.size)
                s_small_used = float(np.asarray(jnp.asarray(s_small))) if not x64 else s_small
                tols = 64 * eps * (np.abs(mx) + s_small_used) + s_small_used * np.log(n) + 1e-300
                if not np.all(np.isfinite(got_s)) or np.any(np.abs(got_s - mx) > tols):
                    res["violations"].append({"key": "small_scale_limit", "what": f"{label}: with scale {s_small:.3g} the result is not within s*log(n) of the maximum"})
            except FloatingPointError:
                res["violations"].append({"key": "nan_produced", "what": f"{label}: NaN for small scale {s_small:.3g}"})
    # segment layout == axis layout
    if rank >= 2 and rng.random() < 0.6:
        S, C = int(rng.integers(1, 5)), int(rng.integers(1, 5))
        rest = tuple(int(x) for x in rng.integers(1, 4, rank - 2))
        w = rng.normal(size=(S, C) + rest) * mag
        try:
            a_axis = np.asarray(dp._calculate_emax_extreme_value_shocks(jnp.asarray(w), (1,), None, params), dtype=float)
            segs2 = {"segment_ids": jnp.asarray(np.repeat(np.arange(S), C)), "num_segments": S}
            a_seg = np.asarray(dp._calculate_emax_extreme_value_shocks(jnp.asarray(w.reshape((S * C,) + rest)), None, segs2, params), dtype=float)
            a_raw = np.asarray(dp._segment_logsumexp(jnp.asarray(w.reshape((S * C,) + rest) / scale), segs2), dtype=float) * scale
            add("segment_layout_equivalences")
            m2 = np.abs(w).max()
            t2 = 256 * eps * (m2 + s_used * np.log(C) + s_used)
            if a_axis.shape != a_seg.shape or np.any(np.abs(a_axis - a_seg) > t2) or np.any(np.abs(a_raw - a_seg) > t2):
                res["violations"].append({"key": "segment_vs_axis_layout", "what": f"choices along an axis and as segments of the leading axis give different results (S={S}, C={C}, scale {scale:.3g})"})
        except FloatingPointError:
            res["violations"].append({"key": "nan_produced", "what": "NaN in segment/axis equivalence"})
    res["features"] = {"x64_off": not x64, "segments": use_seg, "pattern_" + pattern: True, "jit": use_jit}
    res["sig"] = f"{shape}{axes}{None if seg is None else tuple(sizes)}{int(np.log10(scale))}{pattern}"
    res["nontrivial"] = bool(np.max(n) >= 2)
    res["sample"] = {"shape": list(shape), "choice_axes": axes, "segment_sizes": None if seg is None else sizes.tolist(), "scale": scale, "pattern": pattern, "magnitude": mag}
    res["status"] = "violated" if res["violations"] else "held"
    return res
