"""C07 - the parameter template is complete and parameters are routed by function name."""
import numpy as np

ID = "C07"
LEVEL = "exploration"
RULE = (
    "cases = generated models with deliberately colliding parameter names (k, r, a) in utility, auxiliary, "
    "constraint and transition functions and 0-3 stochastic transitions with 0-3 dependencies in shuffled "
    "signature order; (a) the template returned by get_lcm_function (all three targets) is compared exactly "
    "with the reference template (keys, per-function parameter names, shock shapes, beta); (b) sensitivity "
    "monitor: exactly one leaf params[f][p] (or beta, or one shock array) is changed, the SAME generated "
    "solve function is re-run and must equal the reference for the new parameters (so 'did not arrive' and "
    "'arrived elsewhere' are both seen); 1/3 of the cases also simulate and check the law of motion with the "
    "changed transition parameters; (c) the signature order of a stochastic transition is permuted and its "
    "array transposed accordingly -> identical solution. non-trivial = >= 2 functions share a parameter name "
    "or a stochastic transition has >= 2 dependencies; distinct = (shape signature, params)."
)
ASSUMPTIONS = ["reference model routes parameters by function name by construction (params[name][arg])"]
BATCH = {"quick": 4, "thorough": 8}
TIMEOUT = {"quick": 1500, "thorough": 7200}
FLOORS = {"quick": {"templates_compared": 100, "template_filled_in_place": 40, "leaf_changes_checked": 150, "shock_shapes_compared": 30, "dependency_permutations": 12, "collision_models": 30},
          "thorough": {"templates_compared": 1200, "template_filled_in_place": 400, "leaf_changes_checked": 2000, "shock_shapes_compared": 400, "dependency_permutations": 150, "collision_models": 400}}


def plan(tier, seed):
    n = 90 if tier == "quick" else 1000
    cases = []
    for i in range(n):
        cases.append({"index": i, "seed": [seed, 71, i], "cfg": "quick" if tier == "quick" else "thorough",
                      "cfg_over": {"max_T": 3 if tier == "quick" else 5},
                      "force": {"aux_params": True, "constraint_params": i % 2 == 0, "stochastic": i % 2 == 1, "stoch_multi_dep": i % 4 == 1},
                      "simulate": i % 3 == 0, "env": {"VERIF_X64": "1"}})
    # the transition array of a stochastic state with many dependency rows (> 127, > 255) and
    # labels handed over as int8 / uint8: every draw must come from the row the template assigns
    for i in range(4 if tier == "quick" else 40):
        cases.append({"index": 3 * i, "seed": [seed, 72, i], "template": "many_categories", "cfg": "quick",
                      "simulate": True, "init_dtype": ["int8", "uint8"][i % 2], "agents": 300, "env": {"VERIF_X64": "1"}})
    return cases


def _template_problems(tmpl, exp):
    probs = []
    if not isinstance(tmpl, dict):
        return ["template is not a dict"]
    if set(tmpl) != set(exp):
        probs.append(f"top-level keys {sorted(tmpl)} expected {sorted(exp)}")
        return probs
    for k, v in exp.items():
        if k == "beta":
            continue
        if k == "shocks":
            if set(tmpl[k]) != set(v):
                probs.append(f"shocks keys {sorted(tmpl[k])} expected {sorted(v)}")
                continue
            for s, shp in v.items():
                got = tuple(np.shape(tmpl[k][s]))
                if got != tuple(shp):
                    probs.append(f"shocks[{s}] has shape {got}, expected {tuple(shp)} (dependencies in signature order, then labels)")
            continue
        if sorted(tmpl[k]) != list(v):
            probs.append(f"template[{k}] lists {sorted(tmpl[k])}, expected {list(v)}")
    return probs


def run_case(case):
    from vlib import bootstrap, dsl, gen, pipeline, simcheck
    from vlib.refmodel import Ref, maxdev

    rng = pipeline.case_rng(case, 5)
    desc, realised = pipeline.model_from_case(case)
    ref = Ref(desc)
    params = desc["params"]
    sol = ref.solve(params)
    ok, reasons = ref.supported(sol)
    if not ok:
        return pipeline.screened_result(desc, realised, reasons)
    res = {"counters": {}, "maxima": {}, "violations": [], "features": {}, "nontrivial": False}
    cnt = res["counters"]

    def add(k, n=1):
        cnt[k] = cnt.get(k, 0) + int(n)

    tol = bootstrap.TOL
    try:
        model = dsl.build_lcm_model(desc)
        if case["index"] % 2 == 0:
            pipeline.run_alias_sibling(model, counters=cnt)
        f, tmpl = pipeline.get_lcm_function(model, "solve")
        _, tmpl2 = pipeline.get_lcm_function(model, "simulate")
    except Exception as e:  # noqa: BLE001
        res["violations"].append({"key": pipeline.exc_key(e, "build"), "what": pipeline.exc_text(e)})
        res["status"] = "violated"
        return res
    exp_t = ref.param_template()
    for name, t in (("solve", tmpl), ("simulate", tmpl2)):
        add("templates_compared")
        for p in _template_problems(t, exp_t):
            res["violations"].append({"key": "template_mismatch", "what": f"template (target {name}): {p}"})
    add("shock_shapes_compared", len(exp_t.get("shocks", {})))
    # collisions present?
    pn = {}
    for fn, ps in params.items():
        if isinstance(ps, dict) and fn != "shocks":
            for p in ps:
                pn.setdefault(p, []).append(fn)
    collisions = {p: fs for p, fs in pn.items() if len(fs) >= 2}
    if collisions:
        add("collision_models")

    def solve_and_compare(p, what):
        s = ref.solve(p)
        ok_, _ = ref.supported(s)
        if not ok_:
            add("leaf_change_left_scope")
            return
        try:
            out = pipeline.to_np_list(f(dsl.lcm_params(p)))
        except Exception as e:  # noqa: BLE001
            res["violations"].append({"key": pipeline.exc_key(e, "solve"), "what": pipeline.exc_text(e)})
            return
        add("leaf_changes_checked")
        for t in range(ref.T):
            exp = ref.to_lcm_layout(s["V"][t], t)
            if out[t].shape != exp.shape or maxdev(out[t], exp) > tol:
                res["violations"].append({"key": "routing_mismatch", "what": f"{what}: period {t} differs from the reference for the changed parameters (max rel dev {maxdev(out[t], exp) if out[t].shape == exp.shape else 'shape'}); parameter names shared across functions: {collisions}"})
                return

    solve_and_compare(params, "base parameters")

    # the usual workflow: fill the RETURNED template in place (one leaf after the other)
    def fill_in_place(t, p):
        import copy

        import jax.numpy as jnp

        t = copy.deepcopy(t)
        for fn, ps in p.items():
            if fn == "beta":
                t["beta"] = ps
            elif fn == "shocks":
                for s_, a_ in ps.items():
                    t["shocks"][s_] = jnp.asarray(np.asarray(a_, dtype=float))
            else:
                for k_, v_ in ps.items():
                    t[fn][k_] = v_
        return t

    try:
        filled = fill_in_place(tmpl, params)
        out_f = pipeline.to_np_list(f(filled))
        add("template_filled_in_place")
        # templates of separate builds are separate objects: a template obtained AFTER this one was
        # filled is unfilled (NaN leaves), and writing into it leaves the filled one alone
        import copy as _copy

        for fn_, ps_ in params.items():  # now fill the object that was really returned
            if isinstance(ps_, dict) and fn_ != "shocks" and isinstance(tmpl.get(fn_), dict):
                for k_, v_ in ps_.items():
                    tmpl[fn_][k_] = v_
        filled = tmpl
        snap = _copy.deepcopy({k: (dict(v) if isinstance(v, dict) and k != "shocks" else None) for k, v in filled.items() if k != "shocks"})
        _, tmpl3 = pipeline.get_lcm_function(model, "solve")
        add("templates_of_later_builds_checked")
        dirty = [f"{k}.{p_}" for k, v in tmpl3.items() if isinstance(v, dict) and k != "shocks" for p_, x in v.items() if not (isinstance(x, float) and x != x) and not bool(np.all(np.isnan(np.asarray(x, dtype=float))))]
        if dirty:
            res["violations"].append({"key": "template_of_new_build_already_filled", "what": f"a template returned by a later get_lcm_function call on the same model already holds values at {dirty[:4]} (templates of separate builds share objects)"})
        for k, v in tmpl3.items():
            if isinstance(v, dict) and k != "shocks":
                for p_ in v:
                    v[p_] = -12345.678
        changed = [f"{k}.{p_}" for k, v in snap.items() if v for p_, x in v.items() if filled[k][p_] != x]
        if changed:
            res["violations"].append({"key": "templates_share_objects", "what": f"writing into the template of a later build changed the already filled template at {changed[:4]}"})
        for t in range(ref.T):
            exp = ref.to_lcm_layout(sol["V"][t], t)
            if out_f[t].shape != exp.shape or maxdev(out_f[t], exp) > tol:
                res["violations"].append({"key": "template_filled_in_place_mismatch", "what": f"filling the returned template in place (params[f][p] = value for every leaf) and solving gives values that differ from the reference in period {t}: equal parameter names in different functions interact ({collisions})"})
                break
    except KeyError as e:
        res["violations"].append({"key": "template_mismatch", "what": f"template cannot be filled with the model's parameters: missing {e}"})
    except Exception as e:  # noqa: BLE001
        res["violations"].append({"key": pipeline.exc_key(e, "solve_filled_template"), "what": pipeline.exc_text(e)})
    frozen = {tuple(x) for x in desc.get("frozen_params", ())}
    leaves = [(fn, p) for fn, ps in params.items() if isinstance(ps, dict) and fn != "shocks" for p in ps if (fn, p) not in frozen]
    order = rng.permutation(len(leaves))[:3] if leaves else []
    for j in order:
        fn, p = leaves[j]
        p2 = {k: (dict(v) if isinstance(v, dict) else v) for k, v in params.items()}
        old = p2[fn][p]
        p2[fn][p] = (old + 1) if isinstance(old, int) else round(old * 1.37 + 0.21, 4)
        solve_and_compare(p2, f"changed params[{fn}][{p}] {old} -> {p2[fn][p]}")
    pb = dict(params)
    pb["beta"] = round(params["beta"] * 0.61, 4)
    solve_and_compare(pb, f"changed beta {params['beta']} -> {pb['beta']}")
    if ref.stoch:
        p3 = gen.perturb_params(rng, params, desc.get("frozen_params", ()))
        p3 = {**params, "shocks": p3["shocks"]}
        solve_and_compare(p3, "changed all shock arrays")
    # (c) permute dependency order of a stochastic transition
    multi = [n for n in ref.stoch if len(ref.fargs[n]) >= 2]
    if multi:
        name = multi[int(rng.integers(0, len(multi)))]
        s = name[len("next_"):]
        deps = ref.fargs[name]
        perm = [int(x) for x in rng.permutation(len(deps))]
        if perm == list(range(len(deps))):
            perm = perm[::-1]
        desc2 = {**desc, "functions": [[n, ([deps[i] for i in perm] if n == name else a), e] for n, a, e in desc["functions"]]}
        P = np.asarray(params["shocks"][s], dtype=float)
        p4 = {**params, "shocks": {**params["shocks"], s: np.transpose(P, perm + [len(deps)]).tolist()}}
        try:
            m2 = dsl.build_lcm_model(desc2)
            f2, tm2 = pipeline.get_lcm_function(m2, "solve")
            add("dependency_permutations")
            exp_shape = tuple(np.transpose(P, perm + [len(deps)]).shape)
            if tuple(np.shape(tm2["shocks"][s])) != exp_shape:
                res["violations"].append({"key": "template_mismatch", "what": f"after permuting the signature of {name} to {[deps[i] for i in perm]} the template shape is {tuple(np.shape(tm2['shocks'][s]))}, expected {exp_shape}"})
            out2 = pipeline.to_np_list(f2(dsl.lcm_params(p4)))
            out1 = pipeline.to_np_list(f(dsl.lcm_params(params)))
            for t in range(ref.T):
                if out1[t].shape != out2[t].shape or maxdev(out2[t], out1[t]) > 1e-12:
                    res["violations"].append({"key": "dependency_order_matters", "what": f"permuting the signature order of {name} and transposing its array accordingly changes the solution (period {t})"})
                    break
        except Exception as e:  # noqa: BLE001
            res["violations"].append({"key": pipeline.exc_key(e, "permuted_dependencies"), "what": pipeline.exc_text(e)})
    # simulate with a changed transition parameter
    if case.get("simulate"):
        tl = [(fn, p) for fn, p in leaves if fn.startswith("next_")]
        p5 = {k: (dict(v) if isinstance(v, dict) else v) for k, v in params.items()}
        for fn, p in tl[:2]:
            p5[fn][p] = round(p5[fn][p] * 1.5 + 0.05, 4) if not isinstance(p5[fn][p], int) else p5[fn][p] + 1
        s5 = ref.solve(p5)
        if ref.supported(s5)[0]:
            try:
                fsim, _ = pipeline.get_lcm_function(model, "simulate")
                init = gen.gen_initial_states(rng, ref, case.get("agents", 16))
                if case.get("init_dtype"):
                    init = {k: (np.asarray(v).astype(case["init_dtype"]) if ref.is_disc(k) else v) for k, v in init.items()}
                    add("narrow_int_initial_state_panels")
                vf = simcheck.vf_arrays(ref, p5, "ref", rng, refsol=s5)
                df = simcheck.simulate_once(fsim, p5, init, vf, seed=3)
                j = simcheck.judge_panel(ref, p5, df, init, vf)
                add("simulated_rows_judged", j["counters"].get("rows_in_scope", 0))
                for v in j["C02"] + j["C03"]:
                    res["violations"].append({"key": "routing_in_simulation:" + v["key"], "what": v["what"]})
            except Exception as e:  # noqa: BLE001
                res["violations"].append({"key": pipeline.exc_key(e, "simulate"), "what": pipeline.exc_text(e)})
        # the same routing through ONE params mapping edited in place between two calls of one
        # solve_and_simulate function (every function must receive the values stored NOW, also in
        # the backward induction; beta as stored now)
        p6 = {k: (dict(v) if isinstance(v, dict) else v) for k, v in p5.items()}
        p6["beta"] = round(params["beta"] * 0.83, 4)
        s6 = ref.solve(p6)
        if ref.supported(s5)[0] and ref.supported(s6)[0] and ref.states:
            try:
                fb, _ = pipeline.get_lcm_function(model, "solve_and_simulate")
                init6 = gen.gen_initial_states(rng, ref, case.get("agents", 16))
                pm = dsl.lcm_params(params)
                fb(pm, initial_states=pipeline.jnp_states(init6), seed=3)
                pipeline.update_params_in_place(pm, dsl.lcm_params(p6))
                df6 = fb(pm, initial_states=pipeline.jnp_states(init6), seed=3)
                vf6 = simcheck.vf_arrays(ref, p6, "ref", rng, refsol=s6)
                j6 = simcheck.judge_panel(ref, p6, df6, init6, vf6)
                add("solve_and_simulate_calls_with_params_edited_in_place")
                add("simulated_rows_judged", j6["counters"].get("rows_in_scope", 0))
                for v in j6["C02"] + j6["C03"]:
                    res["violations"].append({"key": "routing_after_in_place_edit:" + v["key"], "what": "second call of one solve_and_simulate function with the same params mapping edited in place: " + v["what"]})
            except Exception as e:  # noqa: BLE001
                res["violations"].append({"key": pipeline.exc_key(e, "solve_and_simulate_in_place"), "what": pipeline.exc_text(e)})
    res["features"] = {**{k: bool(v) for k, v in realised.items()}, "collisions": bool(collisions), "multi_dep_stochastic": bool(multi)}
    res["sig"] = f"{dsl.shape_signature(desc)}#{pipeline.param_hash(params)}"
    res["nontrivial"] = bool(collisions or multi)
    res["sample"] = {"template_expected": {k: (v if k != "shocks" else {s: list(x) for s, x in v.items()}) for k, v in exp_t.items()},
                     "collisions": collisions, "functions": [[n, a] for n, a, _ in desc["functions"]]}
    res["status"] = "violated" if res["violations"] else "held"
    return res
