"""C05 - value arrays follow the documented axis layout."""
import itertools

import numpy as np

ID = "C05"
LEVEL = "exploration"
RULE = (
    "cases = models from a template with up to 6 states of pairwise different grid sizes (restricted "
    "discrete r1(2), r2(3); unrestricted discrete e(4), g(5), one of them possibly stochastic; continuous w(6, linear), z(7, log)) and up to 3 "
    "choices, asymmetric utility in every state, period-dependent filter (row count changes over time) and "
    "period-dependent utility (a reversed list is visible); declaration orders of states/choices/functions "
    "permuted (all permutations of <= 4 states for one fixed model in the thorough tier, sampled in quick); "
    "plus generic generated models. oracle = reference layout (own derivation from the statement) applied "
    "to reference values: list length, exact shapes, entries 1e-9; in-situ: axis_names of every space-info. "
    "non-trivial = >= 2 state axes of different length or a restricted axis with excluded combinations; "
    "distinct = (state subset, declaration order, params)."
)
ASSUMPTIONS = ["reference values (C01's oracle) are used to identify which state an entry belongs to"]
BATCH = {"quick": 4, "thorough": 8}
TIMEOUT = {"quick": 1500, "thorough": 7200}
FLOORS = {"quick": {"arrays_checked": 200, "entries_compared": 15000, "declaration_orders": 60},
          "thorough": {"arrays_checked": 1800, "entries_compared": 200000, "declaration_orders": 700}}

ALL_STATES = ["r1", "r2", "e", "g", "w", "z"]


def plan(tier, seed):
    cases = []
    n = 84 if tier == "quick" else 700
    for i in range(n):
        cases.append({"kind": "template", "index": i, "seed": [seed, 51, i], "env": {"VERIF_X64": "1"}})
    if tier == "thorough":
        for j, perm in enumerate(itertools.permutations(["r1", "r2", "e", "w"])):
            cases.append({"kind": "template", "index": j, "seed": [seed, 52, 0], "fixed_states": ["r1", "r2", "e", "w"], "state_perm": list(perm), "env": {"VERIF_X64": "1"}})
    m = 24 if tier == "quick" else 300
    for i in range(m):
        cases.append({"kind": "generic", "index": i, "seed": [seed, 53, i], "cfg": "quick", "force": {"filters": True, "period_filter": i % 2 == 0, "two_cont_states": i % 3 == 0}, "env": {"VERIF_X64": "1"}})
    return cases


def template_desc(rng, fixed_states=None, state_perm=None):
    from vlib.gen import rnd

    if fixed_states is None:
        k = int(rng.integers(1, 6))
        sts = [str(x) for x in rng.permutation(ALL_STATES)[:k]]
        if rng.random() < 0.4 and "e" in sts and "g" not in sts:
            sts.append("g")  # two unrestricted discrete states
        if ("r1" in sts or "r2" in sts) is False and rng.random() < 0.5:
            sts[0] = "r1"
        sts = list(dict.fromkeys(sts))
    else:
        sts = list(fixed_states)
    T = int(rng.integers(2, 5))
    spec = {"r1": {"kind": "disc", "n": 2}, "r2": {"kind": "disc", "n": 3}, "e": {"kind": "disc", "n": 4}, "g": {"kind": "disc", "n": 5},
            "w": {"kind": "lin", "start": 1.0, "stop": 9.0, "n": 6}, "z": {"kind": "log", "start": 0.5, "stop": 8.0, "n": 7}}
    cspec = {"c": {"kind": "disc", "n": 2}, "d": {"kind": "disc", "n": 3}, "x": {"kind": "lin", "start": 0.2, "stop": 3.0, "n": 4}}
    restricted = [s for s in ("r1", "r2") if s in sts]
    chs = ["c"] if restricted else []
    for c in ("d", "x"):
        if rng.random() < 0.6:
            chs.append(c)
    if not chs:
        chs = ["d"]
    fns, tables, params = [], {}, {"beta": rnd(rng, 0.6, 0.99)}
    if restricted:
        args = restricted + ["c"]
        dims = [spec[a]["n"] for a in restricted] + [2, T]
        two = bool(rng.random() < 0.5)
        for _ in range(80):
            tab = rng.random(dims) < (0.75 if two else 0.6)
            tab2 = (rng.random(dims[:-1]) < 0.8) if two else np.ones(dims[:-1], bool)
            both = tab & tab2[..., None]
            feas = both.any(axis=len(restricted))  # over c -> (r..., T)
            always = feas.all(axis=-1)
            if always.any() and not feas.all():
                break
        else:
            tab = np.ones(dims, bool)
            tab2 = np.ones(dims[:-1], bool)
            two = False
            feas = tab.any(axis=len(restricted))
            always = feas.all(axis=-1)
        tables["FT"] = tab.tolist()
        fns.append(["lay_filter", args + ["_period"], f"FT[{', '.join(args)}, _period]"])
        params["lay_filter"] = {}
        if two:
            tables["FT2"] = tab2.tolist()
            a2 = [str(x) for x in rng.permutation(args)]
            fns.append(["static_filter", a2, f"FT2[{', '.join(args)}]"])
            params["static_filter"] = {}
        anchors = np.argwhere(always)
        a = anchors[int(rng.integers(0, len(anchors)))]
        b = anchors[int(rng.integers(0, len(anchors)))]
        sel = str(rng.choice(chs if "d" not in chs else ["c", "d"]))
        for j, r in enumerate(restricted):
            fns.append([f"next_{r}", [sel], f"xp.where({sel} == 0, {int(a[j])}, {int(b[j])})"])
            params[f"next_{r}"] = {}
    coef = {"r1": 0.731, "r2": -0.419, "e": 0.283, "g": -0.157, "w": 0.0617, "z": 0.1093}
    terms = [f"{coef[s]} * {s} * (1 + 0.37 * _period)" for s in sts]
    if "w" in sts and "z" in sts:
        terms.append("0.013 * w * z")
    if "e" in sts and "w" in sts:
        terms.append("0.021 * e * w")
    if "r2" in sts and "e" in sts:
        terms.append("0.057 * r2 * e * e")
    if "e" in sts and "g" in sts:
        terms.append("0.033 * e * g * g")
    for c in chs:
        terms.append({"c": "0.113 * c", "d": "-0.071 * d * d + 0.09 * d", "x": "0.4 * xp.log(x + 0.3)"}[c])
    if "x" in chs and "w" in sts:
        terms.append("-0.01 * x * w")
    if "c" in chs and restricted:
        terms.append(f"0.05 * c * {restricted[0]}")
    fns.append(["utility", sts + chs + ["_period"], " + ".join(terms)])
    params["utility"] = {}
    stochastic = []
    st_pick = str(rng.choice(["none", "e", "g"], p=[0.4, 0.3, 0.3]))
    for name, n in (("e", 4), ("g", 5)):
        if name not in sts:
            continue
        if st_pick == name:
            # a stochastic unrestricted discrete state (declared before or after the deterministic one)
            deps = [name] + (["d"] if "d" in chs and rng.random() < 0.5 else [])
            dims = [n] + ([3] if len(deps) > 1 else []) + [n]
            P = rng.random(dims) + 0.05
            params.setdefault("shocks", {})[name] = (P / P.sum(-1, keepdims=True)).tolist()
            fns.append([f"next_{name}", deps, "None"])
            stochastic.append(f"next_{name}")
        elif "d" in chs:
            fns.append([f"next_{name}", [name, "d"], f"({name} + d) % {n}"])
        else:
            fns.append([f"next_{name}", [name], f"({name} + 1) % {n}"])
        params[f"next_{name}"] = {}
    if "w" in sts:
        if "x" in chs:
            fns.append(["next_w", ["w", "x"], "0.9 * w + 0.3 * x + 0.4"])
        else:
            fns.append(["next_w", ["w"], "0.9 * w + 0.7"])
        params["next_w"] = {}
    if "z" in sts:
        fns.append(["next_z", ["z"], "xp.clip(1.3 * z - 0.2, 0.5, 8.0)"])
        params["next_z"] = {}
    if state_perm is not None:
        sts_decl = list(state_perm)
    else:
        sts_decl = [str(x) for x in rng.permutation(sts)]
    chs_decl = [str(x) for x in rng.permutation(chs)]
    fns = [fns[i] for i in rng.permutation(len(fns))]
    return {"n_periods": T, "states": [[s, spec[s]] for s in sts_decl], "choices": [[c, cspec[c]] for c in chs_decl],
            "functions": fns, "stochastic": stochastic, "tables": tables, "params": params}


def run_case(case):
    from vlib import bootstrap, dsl, pipeline
    from vlib.refmodel import Ref, maxdev

    rng = pipeline.case_rng(case)
    if case["kind"] == "template":
        desc = template_desc(rng, case.get("fixed_states"), case.get("state_perm"))
        realised = {}
    else:
        desc, realised = pipeline.model_from_case(case)
    ref = Ref(desc)
    params = desc["params"]
    sol = ref.solve(params)
    ok, reasons = ref.supported(sol)
    if not ok:
        return pipeline.screened_result(desc, realised, reasons)
    res = {"counters": {}, "maxima": {}, "violations": [], "features": {}, "nontrivial": False}
    cnt = res["counters"]

    def add(k, n=1):
        cnt[k] = cnt.get(k, 0) + int(n)

    # W1: record the space infos created for this model
    import lcm.entry_point as ep

    seen = []
    orig = getattr(ep, "create_state_choice_space", None)
    if orig is not None:
        def wrapped(*a, **k):
            r = orig(*a, **k)
            seen.append((k.get("period"), r))
            return r

        ep.create_state_choice_space = wrapped
    try:
        model = dsl.build_lcm_model(desc)
        if case.get("index", 0) % 2 == 0 and len(model.states) + len(model.choices) >= 2:
            # process history: a twin made of the SAME grid and function objects, declared in the
            # reverse order (equal by value, another specification for the layout contract), is
            # processed right before the judged model
            try:
                import lcm as _lcm

                twin = _lcm.Model(n_periods=model.n_periods, functions=dict(reversed(list(model.functions.items()))),
                                  states=dict(reversed(list(model.states.items()))), choices=dict(reversed(list(model.choices.items()))))
                pipeline.get_lcm_function(twin, "solve")
                add("reordered_twins_processed_before")
            except Exception:  # noqa: BLE001 - the twin is not under test
                add("reordered_twin_failed")
            seen.clear()  # W1 recorded the twin's spaces: only the judged model's are compared
        f, _ = pipeline.get_lcm_function(model, "solve")
        out = pipeline.to_np_list(f(dsl.lcm_params(params)))
    except Exception as e:  # noqa: BLE001
        res["violations"].append({"key": pipeline.exc_key(e, "solve"), "what": pipeline.exc_text(e)})
        res["status"] = "violated"
        return res
    finally:
        if orig is not None:
            ep.create_state_choice_space = orig
    add("declaration_orders")
    # the layout is a property of every call: a second call of the same function object (params
    # leaves of another type, which re-traces a jitted function) must return the same list
    try:
        out_b = pipeline.to_np_list(f(dsl.lcm_params(params, leaf="np0d")))
        add("second_calls")
        if len(out_b) != len(out) or any(a.shape != b.shape for a, b in zip(out, out_b)):
            res["violations"].append({"key": "list_length", "what": f"second call of the same solve function returns {len(out_b)} arrays with shapes {[a.shape for a in out_b][:4]}; the first call returned {len(out)} arrays with shapes {[a.shape for a in out][:4]}"})
    except Exception as e:  # noqa: BLE001
        res["violations"].append({"key": pipeline.exc_key(e, "second_call"), "what": pipeline.exc_text(e)})
    if not isinstance(out, list) or len(out) != ref.T:
        res["violations"].append({"key": "list_length", "what": f"solution has {len(out)} arrays for {ref.T} periods"})
    else:
        exp_axes = (["state_index"] if ref.sparse_states else []) + ref.dense_disc_states + ref.cont_states
        for t in range(ref.T):
            exp = ref.to_lcm_layout(sol["V"][t], t)
            got = out[t]
            add("arrays_checked")
            if got.shape != exp.shape:
                res["violations"].append({"key": "shape_mismatch", "what": f"period {t}: array shape {got.shape}; layout contract gives {exp.shape} for axes {exp_axes} (declared states {[s for s, _ in desc['states']]})"})
                continue
            add("entries_compared", exp.size)
            d = maxdev(got, exp)
            res["maxima"]["max_rel_dev"] = max(res["maxima"].get("max_rel_dev", 0.0), d)
            if d > bootstrap.TOL:
                # is it a transposition / reversal? (diagnostic only)
                hint = ""
                if ref.T > 1 and out[ref.T - 1 - t].shape == exp.shape and maxdev(out[ref.T - 1 - t], exp) <= bootstrap.TOL:
                    hint = " (matches the array at the mirrored list position: list order reversed?)"
                res["violations"].append({"key": "entry_not_at_layout_position", "what": f"period {t}: entries do not belong to the states the layout assigns to their multi-index (max rel dev {d:.3g}){hint}"})
        for period, r in seen:
            add("w1_spaces_seen")
            try:
                an = list(r[1].axis_names)
            except Exception:  # noqa: BLE001
                add("w1_unavailable")
                continue
            if an != exp_axes:
                res["violations"].append({"key": "space_info_axis_names", "what": f"period {period}: space-info axis_names {an}, layout contract {exp_axes}"})
    res["features"] = {**{k: bool(v) for k, v in realised.items()}, "kind_" + case["kind"]: True,
                       "restricted_axis_excludes": any(ref.feas_state(t) is not None and not ref.feas_state(t).all() for t in range(ref.T)),
                       "rowcount_changes": len({ref.lcm_shape(t) for t in range(ref.T)}) > 1}
    res["sig"] = f"{[s for s, _ in desc['states']]}{[c for c, _ in desc['choices']]}{pipeline.param_hash(params)}{dsl.shape_signature(desc)}"
    shp = ref.lcm_shape(0)
    res["nontrivial"] = bool(len(set(shp)) >= 2 or res["features"]["restricted_axis_excludes"])
    res["sample"] = {"declared_states": [s for s, _ in desc["states"]], "declared_choices": [c for c, _ in desc["choices"]],
                     "expected_axes": (["state_index"] if ref.sparse_states else []) + ref.dense_disc_states + ref.cont_states,
                     "shapes": [list(ref.lcm_shape(t)) for t in range(ref.T)]}
    res["status"] = "violated" if res["violations"] else "held"
    return res


def aggregate(results, tier):
    inc, feats = [], {}
    for r in results:
        if r.get("status") in ("held", "violated"):
            for k, v in r.get("features", {}).items():
                if v:
                    feats[k] = feats.get(k, 0) + 1
    for k in ("restricted_axis_excludes", "rowcount_changes"):
        if feats.get(k, 0) == 0:
            inc.append(f"needed feature never realised by a judged case: {k}")
    return {"inconclusive": inc}
