"""C13 - the simulation result is a complete, correctly indexed panel."""
import itertools

import numpy as np

ID = "C13"
LEVEL = "exploration"
RULE = (
    "cases = generated supported models x N in {1,2,7,64} x T in 1..4 x sets of additional targets "
    "(all subsets when <= 3 eligible targets, else random subsets; eligible = auxiliary functions, "
    "utility, constraints, deterministic transitions); the returned frame is checked exactly: T*N rows, "
    "MultiIndex (period, initial_state_id) period-major, columns value+choices+states+_period+targets, "
    "_period == t, row (t,i) is agent i (via unique initial states and the law-of-motion chain), and "
    "every target column is re-evaluated by the reference at the row (ints/bools exact, floats 1e-11). "
    "non-trivial = N*T >= 2 and >= 1 target column checked; distinct = (shape signature, params, N, targets)."
)
ASSUMPTIONS = ["numpy evaluation of user functions trusted", "out-of-scope rows are not judged for target values"]
BATCH = {"quick": 3, "thorough": 6}
TIMEOUT = {"quick": 1500, "thorough": 7200}
FLOORS = {
    "quick": {"c13_structure_checks": 60, "c13_target_cells": 2000, "frames_checked": 60},
    "thorough": {"c13_structure_checks": 600, "c13_target_cells": 50000, "frames_checked": 600},
}


def plan(tier, seed):
    n = 60 if tier == "quick" else 700
    cases = []
    for i in range(n):
        cases.append({"index": i, "seed": [seed, 41, i], "cfg": "quick" if tier == "quick" else "thorough",
                      "cfg_over": {"max_T": 4}, "force": {"aux_params": i % 2 == 0, "period_utility": i % 3 == 0, "scalar_aux": i % 3 == 1},
                      "agents": [1, 2, 7, 64][i % 4], "force_T": [None, 1, None, None, 2][i % 5],
                      "n_target_sets": 2 if tier == "quick" else 3, "env": {"VERIF_X64": "1"}})
    # panels with more than 2**14 rows that are not a multiple of it (block-wise post-processing)
    for i in range(4 if tier == "quick" else 16):
        cases.append({"index": 2 * i, "seed": [seed, 42, i], "cfg": "quick", "cfg_over": {"max_T": 4, "min_T": 3, "max_cells": 3000, "max_cont_choice_pts": 5},
                      "force": {"aux_params": True, "period_utility": True, "scalar_aux": False, "stochastic": False, "two_stochastic": False},
                      "agents": [6000, 9001][i % 2], "force_T": None, "n_target_sets": 1, "big_panel": True, "env": {"VERIF_X64": "1"}})
    return cases


def eligible_targets(ref):
    out = []
    for n in ref.fargs:
        if n.endswith("_filter") or n in ref.stoch:
            continue
        out.append(n)
    return out


def run_case(case):
    from vlib import dsl, gen, pipeline, simcheck
    from vlib.refmodel import Ref

    rng = pipeline.case_rng(case, 5)
    desc, realised = pipeline.model_from_case(case)
    if case["index"] % 5 == 3 and "desc" not in case:
        # legal variable names that coincide with the panel's own labels ('period',
        # 'initial_state_id', 'value'): only '_period' is reserved
        names = [s_ for s_, _ in desc["states"]] + [c_ for c_, _ in desc["choices"]]
        mapping = {names[0]: "period"}
        if len(names) >= 2:
            mapping[names[-1]] = "initial_state_id"
        desc = pipeline.rename_variables(desc, mapping)
        pipeline.LAST["desc"] = desc
        realised = {**realised, "variables_named_like_panel_labels": True}
    if case.get("force_T"):
        desc = {**desc, "n_periods": case["force_T"]}
        # period-indexed tables / shocks were generated for the original horizon: only shrink
    ref = Ref(desc)
    params = desc["params"]
    try:
        refsol = ref.solve(params)
    except Exception:  # noqa: BLE001 - horizon change made a table index invalid
        return pipeline.screened_result(desc, realised, ["horizon_change_invalid"])
    ok, reasons = ref.supported(refsol)
    if not ok:
        return pipeline.screened_result(desc, realised, reasons)
    res = {"counters": {}, "maxima": {}, "violations": [], "features": {}, "nontrivial": False}
    cnt = res["counters"]
    N = case["agents"]
    init = gen.gen_initial_states(rng, ref, N, int_cont=0.5 if case["index"] % 2 else 0.0)
    # unique initial states where possible (agent identity)
    for s in ref.cont_states:
        if ref.spec[s]["kind"] == "lin" and np.issubdtype(np.asarray(init[s]).dtype, np.floating):
            g = ref.grid[s]
            init[s] = np.sort(rng.uniform(g[0], g[-1], N))[rng.permutation(N)]
            break
    vf = simcheck.vf_arrays(ref, params, "ref", rng, refsol=refsol)
    el = eligible_targets(ref)
    subsets = [()]
    if len(el) <= 3:
        allsub = [c for k in range(1, len(el) + 1) for c in itertools.combinations(el, k)]
    else:
        allsub = [tuple(rng.permutation(el)[: int(rng.integers(1, len(el) + 1))]) for _ in range(6)] + [tuple(el)]
    order = rng.permutation(len(allsub))
    subsets += [allsub[i] for i in order[: case["n_target_sets"]]]
    try:
        model = dsl.build_lcm_model(desc)
        # jit=False is a documented option for every target (the panel must not depend on it)
        fsim, _ = pipeline.get_lcm_function(model, "simulate", jit=(case["index"] % 3 != 2))
        if case["index"] % 3 == 2:
            cnt["simulate_functions_built_with_jit_false"] = 1
    except Exception as e:  # noqa: BLE001
        res["violations"].append({"key": pipeline.exc_key(e, "build"), "what": pipeline.exc_text(e)})
        res["status"] = "violated"
        return res
    ncells = 0
    st_obj = pipeline.jnp_states(init)  # one mapping object, re-used for every call like a user would
    for tg in subsets:
        tg = [str(x) for x in tg]
        if case["index"] % 2 == 0:
            # same names, other bodies, same targets, same process, right before the judged call
            pipeline.run_sibling(desc, simulate=True, targets=tg, counters=cnt)
        try:
            # an empty list of requested targets is a request like any other (no extra columns)
            df = simcheck.simulate_once(fsim, params, init, vf, seed=7, targets=tg if (tg or case["index"] % 2) else None, st_obj=st_obj)
        except Exception as e:  # noqa: BLE001
            res["violations"].append({"key": pipeline.exc_key(e, "simulate_targets"), "what": pipeline.exc_text(e) + f" targets={tg}"})
            continue
        cnt["frames_checked"] = cnt.get("frames_checked", 0) + 1
        j = simcheck.judge_panel(ref, params, df, init, vf, targets=tg, judge_c02=False)
        res["violations"] += j["C13"]
        # agent identity: the chain of C03 from unique initial states
        res["violations"] += [{"key": "row_not_agent:" + v["key"], "what": v["what"]} for v in j["C03"]]
        for k, v in j["counters"].items():
            cnt[k] = cnt.get(k, 0) + v
        if tg and not j["C13"]:
            viol, n = simcheck.judge_targets(ref, params, df, tg, j["valid"])
            res["violations"] += viol
            ncells += n
    cnt["c13_target_cells"] = ncells
    res["violations"] += simcheck.drain_argument_mutations()
    res["status"] = "violated" if res["violations"] else "held"
    res["features"] = {**{k: bool(v) for k, v in realised.items()}, f"N{N}": True, f"T{ref.T}": True, "rows_gt_16384": bool(N * ref.T > 16384)}
    res["sig"] = f"{dsl.shape_signature(desc)}#{pipeline.param_hash(params)}#N{N}#{len(subsets)}"
    res["nontrivial"] = bool(N * ref.T >= 2 and ncells > 0)
    res["sample"] = {"desc": {k: v for k, v in desc.items() if k not in ("tables", "params")}, "agents": N,
                     "target_sets": [list(map(str, s)) for s in subsets]}
    return res
