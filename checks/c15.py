"""C15 - interpolation kernel and grid coordinates are exact inverses of the grids."""
import numpy as np

ID = "C15"
LEVEL = "exploration"
RULE = (
    "kernel cases = random float arrays of rank 1-4 (axis sizes 2-6) x coordinate batches (integer, "
    "fractional, up to 3 cells outside, scalar or batched) -> lcm.ndimage.map_coordinates compared with "
    "an independent 2^rank blend with lower index clipped to [0,n-2]; grid cases = random linear grids "
    "(any sign, spans 1e-3..1e6, n>=2) and log grids (start 1e-3..1e3, up to 4 decades, n 2-30): "
    "coordinate(grid[i]) == i (1e-9), strictly increasing on sorted distinct values, "
    "map_coordinates(grid, coordinate(v)) == v (linear also outside the range, log inside). "
    "non-trivial = case with >= 1 fractional and >= 1 outside coordinate (kernel) / n >= 3 (grid); "
    "distinct = distinct (rank, shape) resp. (kind, n, start, stop)."
)
ASSUMPTIONS = ["numpy float64 reference blend"]
BATCH = {"quick": 40, "thorough": 200}
FLOORS = {
    "quick": {"kernel_points": 6000, "grid_values": 50000, "grids": 800},
    "thorough": {"kernel_points": 100000, "grid_values": 1000000, "grids": 10000},
}


def plan(tier, seed):
    nk = 160 if tier == "quick" else 3000
    ng = 300 if tier == "quick" else 4000
    cases = [{"kind": "kernel", "index": i, "seed": [seed, 151, i], "env": {"VERIF_X64": "1"}} for i in range(nk)]
    cases += [{"kind": "grid", "index": i, "seed": [seed, 152, i], "n_grids": 3, "env": {"VERIF_X64": "1"}} for i in range(ng)]
    cases += [{"kind": "kernel", "index": i, "seed": [seed, 153, i], "env": {"VERIF_X64": "0"}} for i in range(nk // 8)]
    # arrays that hold infinite entries (value arrays legitimately contain -inf): integer and interior coordinates
    cases += [{"kind": "kernel_inf", "index": i, "seed": [seed, 155, i], "env": {"VERIF_X64": "1" if i % 4 else "0"}} for i in range(nk // 4)]
    cases += [{"kind": "grid", "index": i, "seed": [seed, 154, i], "n_grids": 3, "env": {"VERIF_X64": "0"}} for i in range(ng // 8)]
    return cases


def run_case(case):
    from vlib import bootstrap, pipeline
    from vlib.refmodel import ref_map_coordinates
    import jax.numpy as jnp

    rng = pipeline.case_rng(case)
    x64 = bootstrap.X64
    res = {"counters": {}, "maxima": {}, "violations": [], "features": {}, "nontrivial": False}
    cnt = res["counters"]
    if case["kind"] == "kernel":
        from lcm.ndimage import map_coordinates

        rank = int(rng.integers(1, 5))
        shape = tuple(int(x) for x in rng.integers(2, 7, rank))
        arr = rng.normal(size=shape) * 10 ** rng.uniform(-2, 3)
        mode = int(rng.integers(0, 4))
        K = 1 if mode == 3 else 64
        coords = []
        for n in shape:
            r = rng.random(K)
            c = np.where(r < 0.25, rng.integers(0, n, K).astype(float),
                         np.where(r < 0.7, rng.uniform(0, n - 1, K), rng.uniform(-3, n + 2, K)))
            coords.append(c)
        if mode == 3:
            jc = [jnp.asarray(c[0]) for c in coords]
        elif mode == 2:
            jc = jnp.asarray(np.stack(coords))  # one (rank, K) array
        else:
            jc = [jnp.asarray(c) for c in coords]
        try:
            got = np.asarray(map_coordinates(jnp.asarray(arr), jc), dtype=float).reshape(-1)
        except Exception as e:  # noqa: BLE001
            res["violations"].append({"key": pipeline.exc_key(e, "map_coordinates"), "what": pipeline.exc_text(e)})
            res["status"] = "violated"
            return res
        a_used = arr if x64 else arr.astype(np.float32).astype(float)
        exp = np.asarray(ref_map_coordinates(a_used, coords), dtype=float).reshape(-1)
        scale = np.abs(a_used).max()
        tol = 1e-11 if x64 else 2e-4
        # extrapolation amplifies rounding by the distance outside: scale the tolerance
        amp = np.ones(K)
        for c, n in zip(coords, shape):
            amp = amp * (1 + np.maximum(0, np.maximum(-c, c - (n - 1))))
        dev = np.abs(got - exp) / (scale * amp)
        cnt["kernel_points"] = K
        cnt["kernel_integer_points"] = int(np.all([c == np.floor(c) for c in coords], axis=0).sum())
        cnt["kernel_outside_points"] = int(np.any([(c < 0) | (c > n - 1) for c, n in zip(coords, shape)], axis=0).sum())
        res["maxima"]["kernel_max_dev_x64" if x64 else "kernel_max_dev_f32"] = float(dev.max())
        if np.any(dev > tol) or got.shape != exp.shape:
            i0 = int(np.argmax(dev))
            res["violations"].append({"key": "kernel_mismatch", "what": f"rank {rank} shape {shape}: map_coordinates={got[i0]!r} reference blend={exp[i0]!r} at coords {[float(c[i0]) for c in coords]}"})
        # integer coordinates return the entries themselves
        ii = [rng.integers(0, n, 20) for n in shape]
        got_i = np.asarray(map_coordinates(jnp.asarray(arr), [jnp.asarray(i.astype(float)) for i in ii]), dtype=float)
        if np.any(np.abs(got_i - a_used[tuple(ii)]) > (1e-12 if x64 else 1e-5) * (1 + scale)):
            res["violations"].append({"key": "kernel_node_not_reproduced", "what": f"rank {rank}: integer coordinates do not return the array entries"})
        res["sig"] = f"k{rank}{shape}m{mode}"
        res["nontrivial"] = bool(cnt["kernel_outside_points"] > 0 and K > 1)
        res["sample"] = {"kind": "kernel", "shape": list(shape), "mode": ["list", "list", "stacked", "scalar"][mode], "points": K}
    elif case["kind"] == "kernel_inf":
        from lcm.ndimage import map_coordinates

        rank = int(rng.integers(1, 4))
        shape = tuple(int(x) for x in rng.integers(2, 7, rank))
        arr = rng.normal(size=shape) * 10 ** rng.uniform(-1, 2)
        sign = -1.0 if case["index"] % 3 else 1.0  # never both signs in one array (inf - inf has no value)
        holes = rng.random(shape) < rng.uniform(0.1, 0.5)
        if holes.all():
            holes.flat[0] = False
        arr = np.where(holes, sign * np.inf, arr)
        K = 64
        coords = []
        for n in shape:
            r = rng.random(K)
            coords.append(np.where(r < 0.6, rng.integers(0, n, K).astype(float), rng.uniform(0, n - 1, K)))
        a_used = arr if x64 else arr.astype(np.float32).astype(float)
        try:
            got = np.asarray(map_coordinates(jnp.asarray(arr), [jnp.asarray(c) for c in coords]), dtype=float).reshape(-1)
        except Exception as e:  # noqa: BLE001
            res["violations"].append({"key": pipeline.exc_key(e, "map_coordinates"), "what": pipeline.exc_text(e)})
            res["status"] = "violated"
            return res
        exp = np.asarray(ref_map_coordinates(a_used, coords), dtype=float).reshape(-1)
        judged = ~np.isnan(exp)
        fin = np.isfinite(a_used)
        scale = np.abs(a_used[fin]).max() if fin.any() else 1.0
        tol = 1e-11 if x64 else 2e-4
        with np.errstate(invalid="ignore"):
            okv = (got == exp) | (np.abs(got - exp) <= tol * (1 + scale))
        cnt["kernel_inf_points"] = int(judged.sum())
        allint = np.all([c == np.floor(c) for c in coords], axis=0)
        cnt["kernel_inf_integer_points"] = int((judged & allint).sum())
        cnt["kernel_inf_points_next_to_infinite_entries"] = int((judged & np.isfinite(exp)).sum())
        bad = judged & ~okv
        if bad.any():
            i0 = int(np.nonzero(bad)[0][0])
            kind_ = "integer" if allint[i0] else "fractional"
            res["violations"].append({"key": f"kernel_infinite_neighbour|{kind_}_coordinates",
                                      "what": f"rank {rank} shape {shape} array with {'-' if sign < 0 else '+'}inf entries: map_coordinates={got[i0]!r}, expected {exp[i0]!r} at coords {[float(c[i0]) for c in coords]} ({int(bad.sum())}/{int(judged.sum())} points; a corner with weight 0 must not contribute)"})
        res["sig"] = f"kinf{rank}{shape}{sign}"
        res["nontrivial"] = bool(judged.sum() > 0)
        res["sample"] = {"kind": "kernel_inf", "shape": list(shape), "infinite_entries": int(holes.sum()), "sign": sign}
    else:
        from lcm.grids import LinspaceGrid, LogspaceGrid
        from lcm.ndimage import map_coordinates

        samples = []
        for _ in range(case["n_grids"]):
            log = rng.random() < 0.5
            n = int(rng.integers(2, 31))
            if log:
                start = float(10 ** rng.uniform(-3, 3))
                stop = float(start * 10 ** rng.uniform(0.05, 4))
                g = LogspaceGrid(start=start, stop=stop, n_points=n)
                ref = np.exp(np.linspace(np.log(start), np.log(stop), n))
            else:
                span = float(10 ** rng.uniform(-3, 6))
                start = float(rng.uniform(-1, 1) * 10 ** rng.uniform(-2, 5))
                if rng.random() < 0.2:
                    start = float(int(start))
                stop = start + span
                g = LinspaceGrid(start=start, stop=stop, n_points=n)
                ref = np.linspace(start, stop, n)
            # process history: the twin of the OTHER kind with the same (start, stop, n_points) is
            # materialised first (anything memoised by the specification without the kind collides)
            try:
                if log:
                    LinspaceGrid(start=start, stop=stop, n_points=n).to_jax()
                    cnt["twins_of_other_kind_materialised_first"] = cnt.get("twins_of_other_kind_materialised_first", 0) + 1
                elif start > 0:
                    LogspaceGrid(start=start, stop=stop, n_points=n).to_jax()
                    cnt["twins_of_other_kind_materialised_first"] = cnt.get("twins_of_other_kind_materialised_first", 0) + 1
            except Exception:  # noqa: BLE001 - the twin is not under test
                pass
            arr = np.asarray(g.to_jax(), dtype=float)
            cnt["grids"] = cnt.get("grids", 0) + 1
            # conditioning: a value carries a rounding error eps*|v|, i.e. eps*|v|/step in
            # coordinate units -- no implementation can be more exact than that
            eps = 2.2e-16 if x64 else 6e-8
            mag = max(abs(start), abs(stop))
            if log:
                cond = 1.0 / min(np.log(stop / start) / (n - 1), 1.0)
            else:
                cond = mag / ((stop - start) / (n - 1))
            rt = (1e-9 if x64 else 3e-4) * max(1, n) + 16 * eps * cond
            # coordinate(grid[i]) == i
            cn = np.asarray(g.get_coordinate(jnp.asarray(arr)), dtype=float)
            res["maxima"]["node_coord_dev_over_tol"] = max(res["maxima"].get("node_coord_dev_over_tol", 0.0), float(np.abs(cn - np.arange(n)).max() / rt))
            if np.any(np.abs(cn - np.arange(n)) > rt):
                res["violations"].append({"key": "coordinate_of_node", "what": f"{'log' if log else 'lin'} grid start={start} stop={stop} n={n}: coordinate(grid[i]) != i, max dev {np.abs(cn - np.arange(n)).max():.3g}"})
            # values
            if log:
                v = np.exp(rng.uniform(np.log(start), np.log(stop), 200))
                v = np.concatenate([v, ref[:-1] * 0.5 + ref[1:] * 0.5, [start, stop]])  # range is closed: [start, stop]
                v = v[(v >= start) & (v <= stop)]
            else:
                v = rng.uniform(start - 0.5 * (stop - start), stop + 0.5 * (stop - start), 200)
                v = np.concatenate([v, ref[:-1] * 0.5 + ref[1:] * 0.5, [start - (stop - start), stop + (stop - start)]])
            v = np.unique(v)
            # keep values that are distinct at the grid's resolution
            res_abs = (1e-9 if x64 else 1e-3) * max(abs(start), abs(stop), stop - start)
            keep = np.concatenate([[True], np.diff(v) > res_abs])
            v = v[keep]
            nv = len(v)
            v = np.concatenate([v, np.full(256 - nv, v[-1])])  # fixed length: one compile
            cv = np.asarray(g.get_coordinate(jnp.asarray(v)), dtype=float)
            cnt["grid_values"] = cnt.get("grid_values", 0) + nv
            if not np.all(np.isfinite(cv)):
                res["violations"].append({"key": "coordinate_not_finite", "what": f"{'log' if log else 'lin'} grid start={start} stop={stop} n={n}: non-finite coordinate"})
                continue
            if x64 and np.any(np.diff(cv[:nv]) <= 0):
                i0 = int(np.argmax(np.diff(cv[:nv]) <= 0))
                res["violations"].append({"key": "coordinate_not_increasing", "what": f"{'log' if log else 'lin'} grid start={start} stop={stop} n={n}: coordinate not strictly increasing between {v[i0]!r} and {v[i0+1]!r}: {cv[i0]!r} -> {cv[i0+1]!r}"})
            back = np.asarray(map_coordinates(jnp.asarray(arr), [jnp.asarray(cv)]), dtype=float)
            vt = (1e-10 if x64 else 3e-4) + 16 * eps * (cond if not log else 1.0) * 0 + (0 if x64 else 16 * eps * mag / (stop - start))
            dev = np.abs(back - v) / np.maximum(np.abs(v), stop - start if not log else np.abs(v))
            key = ("roundtrip_max_dev_x64" if x64 else "roundtrip_max_dev_f32")
            res["maxima"][key] = max(res["maxima"].get(key, 0.0), float(dev.max()))
            if np.any(dev > vt):
                i0 = int(np.argmax(dev))
                res["violations"].append({"key": "roundtrip", "what": f"{'log' if log else 'lin'} grid start={start} stop={stop} n={n}: interpolating the grid at coordinate({v[i0]!r}) gives {back[i0]!r}"})
            # exact oracle for linear grids in double precision: with start, stop and the value
            # taken as the exact rationals they are, the coordinate is (v - start) * (n - 1) / (stop - start);
            # the subtraction of nearby numbers is exact in floating point, so a faithful
            # implementation is accurate to a few ulps of the coordinate even on grids that lie far
            # from zero relative to their step (where the conditioning bound above is very loose)
            if x64 and not log:
                from fractions import Fraction

                pick = np.unique(np.concatenate([arr[rng.integers(0, n, 4)], v[rng.integers(0, nv, 8)]]))
                cg = np.asarray(g.get_coordinate(jnp.asarray(pick)), dtype=float)
                fs, fe = Fraction(start), Fraction(stop)
                for vv, cc in zip(pick, cg):
                    cex = float((Fraction(float(vv)) - fs) * (n - 1) / (fe - fs))
                    cnt["exact_coordinates_compared"] = cnt.get("exact_coordinates_compared", 0) + 1
                    if not abs(cc - cex) <= 1e-11 * (1 + abs(cex)):
                        res["violations"].append({"key": "coordinate_inexact", "what": f"lin grid start={start!r} stop={stop!r} n={n}: coordinate({float(vv)!r}) = {cc!r}, exact rational arithmetic gives {cex!r} (|start|/step = {abs(start) / ((stop - start) / (n - 1)):.3g})"})
                        break
            # "for every value": integer-TYPED values (python int, numpy / jax integer scalars and
            # arrays) are values like any other - their coordinate is that of the same number as float
            lo_i, hi_i = int(np.ceil(start if log else start - (stop - start))), int(np.floor(stop if log else stop + (stop - start)))
            if hi_i - lo_i >= 1 and abs(lo_i) < 2**30 and abs(hi_i) < 2**30:
                ints = np.unique(rng.integers(lo_i, hi_i + 1, 6))
                cf = np.asarray(g.get_coordinate(jnp.asarray(ints.astype(float))), dtype=float)
                forms = {"python int": [g.get_coordinate(int(k)) for k in ints], "numpy int64 scalar": [g.get_coordinate(np.int64(k)) for k in ints],
                         "int32 array": g.get_coordinate(jnp.asarray(ints, dtype=jnp.int32)), "0-d int array": [g.get_coordinate(np.asarray(int(k))) for k in ints]}
                for form, ci in forms.items():
                    ci = np.asarray([float(np.asarray(c)) for c in ci] if isinstance(ci, list) else ci, dtype=float)
                    cnt["integer_typed_values"] = cnt.get("integer_typed_values", 0) + len(ints)
                    with np.errstate(all="ignore"):
                        # an int32 array is promoted to SINGLE precision by the array library (a
                        # consequence of the argument's dtype, not of the grid code): float32 tolerance
                        tl = 1e-3 if (not x64 or form == "int32 array") else 1e-9
                        okc = np.abs(ci - cf) <= tl * (1 + np.abs(cf)) + 16 * (6e-8 if tl > 1e-6 else 2.2e-16) * cond
                    if not np.all(okc):
                        i0 = int(np.argmin(okc))
                        res["violations"].append({"key": "coordinate_of_integer_typed_value", "what": f"{'log' if log else 'lin'} grid start={start} stop={stop} n={n}: coordinate of {int(ints[i0])} given as {form} is {ci[i0]!r}; the same value as float gives {cf[i0]!r}"})
                        break
            samples.append({"kind": "log" if log else "lin", "start": start, "stop": stop, "n": n, "values": int(len(v))})
        res["sig"] = str([(s["kind"], s["n"], round(s["start"], 6)) for s in samples])
        res["nontrivial"] = any(s["n"] >= 3 for s in samples)
        res["sample"] = {"kind": "grid", "grids": samples}
    res["features"] = {"x64_off": not x64, case["kind"]: True}
    res["status"] = "violated" if res["violations"] else "held"
    return res
