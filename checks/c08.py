"""C08 - agents are simulated independently of each other (metamorphic monitor)."""
import numpy as np

ID = "C08"
LEVEL = "exploration"
RULE = (
    "cases = generated deterministic supported models (restricted choices -> segments of unequal length "
    "per agent) x a batch B of N agents with unique ids; the real simulate function is run on B, on a "
    "permutation of B, on random subsets (a third of the batch, a pair, a triple), on a batch with duplicated agents, on single agents, and with "
    "reversed key order of the initial_states mapping; paths are keyed by agent id and must be equal "
    "(states and choices exactly, value 1e-12); a differing choice is a violation only if the reference's "
    "Q-gap between the two choices exceeds 1e-9 (otherwise counted tie_ambiguous). For stochastic models "
    "only period 0 is compared. non-trivial = N >= 4 and >= 2 batch variants compared; distinct = "
    "(shape signature, params)."
)
ASSUMPTIONS = ["tie ambiguity is decided with the reference model's Q-values"]
BATCH = {"quick": 2, "thorough": 4}
TIMEOUT = {"quick": 1500, "thorough": 7200}
FLOORS = {
    "quick": {"c08_agent_paths_compared": 1500, "c08_variants_run": 120, "models_simulated": 25},
    "thorough": {"c08_agent_paths_compared": 40000, "c08_variants_run": 1500, "models_simulated": 300},
}


def plan(tier, seed):
    n = 44 if tier == "quick" else 600
    cases = []
    for i in range(n):
        stoch = i % 7 == 6
        cases.append({"index": i, "seed": [seed, 81, i], "cfg": "quick" if tier == "quick" else "thorough",
                      "cfg_over": {"max_T": 3 if tier == "quick" else 4, "allow_stochastic": stoch},
                      "force": {"filters": i % 3 != 2, "mixed_discrete": i % 4 == 0, "stochastic": stoch},
                      "agents": (12 if i % 11 != 10 else 300) if tier == "quick" else (48 if i % 6 != 5 else [300, 700, 1100][(i // 6) % 3]), "env": {"VERIF_X64": "1"}})
    # dedicated template: a restricted choice with 3-4 categories whose number of admissible
    # values depends on the agent's state (status >= lag, optionally thinned by a table), so
    # that the per-agent segments have many different lengths
    for i in range(6 if tier == "quick" else 60):
        cases.append({"index": i, "seed": [seed, 82, i], "kind": "segment_template", "agents": 12 if i % 3 else 30, "env": {"VERIF_X64": "1"}})
    return cases


def _segment_template(rng):
    from vlib.gen import rnd

    nl = int(rng.integers(3, 5))
    nw = int(rng.integers(3, 7))
    nc = int(rng.integers(2, 6))
    two = bool(rng.random() < 0.5)
    tab = rng.random((nl, nl, 2)) < 0.75
    for a in range(nl):
        tab[a, nl - 1, :] = True  # the highest status is always admissible
    fns = [
        ["utility", ["c", "status", "lag", "w", "dis"] + (["e"] if two else []),
         "xp.log(c) - dis * status * (1 + 0.37 * lag) + 0.21 * xp.sqrt(w) * status" + (" + 0.113 * e * (status + 1)" if two else "")],
        ["next_w", ["w", "c", "status", "r"], "(1 + r) * (w - c) + 1.3 * status"],
        ["next_lag", ["status"], "status"],
        ["bc_constraint", ["c", "w"], "c <= w"],
        ["abs_filter", ["status", "lag"] + (["e"] if two else []), "(status >= lag) & FT[lag, status, " + ("e" if two else "0") + "]"],
    ]
    params = {"beta": rnd(rng, 0.7, 1.0), "utility": {"dis": rnd(rng, 0.1, 0.9)}, "next_w": {"r": rnd(rng, 0.0, 0.1)},
              "next_lag": {}, "bc_constraint": {}, "abs_filter": {}}
    order = rng.permutation(len(fns))
    choices = [["c", {"kind": "lin", "start": 0.5, "stop": round(rnd(rng, 3, 8), 3), "n": nc}], ["status", {"kind": "disc", "n": nl}]]
    if two:
        choices.append(["e", {"kind": "disc", "n": 2}])
    return {"n_periods": int(rng.integers(2, 4)),
            "states": [["w", {"kind": "lin", "start": 1.0, "stop": round(rnd(rng, 10, 30), 3), "n": nw}], ["lag", {"kind": "disc", "n": nl}]],
            "choices": [choices[i] for i in rng.permutation(len(choices))],
            "functions": [fns[i] for i in order], "stochastic": [], "tables": {"FT": tab.tolist()}, "params": params}


def run_case(case):
    from vlib import dsl, gen, pipeline, simcheck
    from vlib.refmodel import Ref

    rng = pipeline.case_rng(case, 5)
    if case.get("kind") == "segment_template" and "desc" not in case:
        desc, realised = _segment_template(pipeline.case_rng(case)), {"filters": True}
        pipeline.LAST["desc"], pipeline.LAST["realised"] = desc, realised
    else:
        desc, realised = pipeline.model_from_case(case)
    ref = Ref(desc)
    params = desc["params"]
    refsol = ref.solve(params)
    ok, reasons = ref.supported(refsol)
    if not ok:
        return pipeline.screened_result(desc, realised, reasons)
    res = {"counters": {}, "maxima": {}, "violations": [], "features": {}, "nontrivial": False}
    cnt = res["counters"]

    def add(k, n=1):
        cnt[k] = cnt.get(k, 0) + int(n)

    N = case["agents"]
    init = gen.gen_initial_states(rng, ref, N, out_of_range=0.05)
    if case.get("kind") == "segment_template" and case["index"] % 2 == 0:
        # some agents cannot afford the smallest consumption level: no feasible choice at all
        init = {k_: np.array(v_, copy=True) for k_, v_ in init.items()}
        pos = rng.permutation(N)[: max(2, N // 4)]
        init["w"] = np.asarray(init["w"], dtype=float)
        init["w"][pos] = np.round(rng.uniform(0.05, 0.45, len(pos)), 4)
    vf = simcheck.vf_arrays(ref, params, "ref", rng, refsol=refsol)
    vf_full = [ref.from_lcm_layout(vf[t], t) for t in range(ref.T)]
    T = ref.T
    stochastic = bool(ref.stoch)
    tcmp = 1 if stochastic else T
    try:
        model = dsl.build_lcm_model(desc)
        fsim, _ = pipeline.get_lcm_function(model, "simulate")
    except Exception as e:  # noqa: BLE001
        res["violations"].append({"key": pipeline.exc_key(e, "build"), "what": pipeline.exc_text(e)})
        res["status"] = "violated"
        return res

    last_df = {}

    def run(ids, key_order=None):
        st = {s: np.asarray(init[s])[ids] for s in (key_order or ref.states)}
        df = simcheck.simulate_once(fsim, params, st, vf, seed=11)
        last_df["df"] = df
        n = len(ids)
        cols = {c: np.asarray(df[c].values).reshape(T, n) for c in df.columns}
        return cols

    base_ids = np.arange(N)
    try:
        base = run(base_ids)
    except Exception as e:  # noqa: BLE001
        res["violations"].append({"key": pipeline.exc_key(e, "simulate"), "what": pipeline.exc_text(e)})
        res["status"] = "violated"
        return res
    add("models_simulated")
    # scope: rows of the base batch that are inside the model's space with a finite optimum
    jb = simcheck.judge_panel(ref, params, last_df["df"], init, vf, judge_c02=False)
    valid_base = jb["valid"]
    variants = {
        "permutation": rng.permutation(N),
        "subset": np.sort(rng.permutation(N)[: max(1, N // 3)]),
        "duplicates": np.concatenate([rng.integers(0, N, N // 2), [0, 0, N - 1, N - 1]]),
        "pair": np.sort(rng.permutation(N)[:2]),
        "triple": np.sort(rng.permutation(N)[:3]),
        "single_first": np.array([0]),
        "single_last": np.array([N - 1]),
        "reversed_keys": base_ids,
    }
    # hostile batch arithmetic: small groups whose numbers of admissible restricted-choice rows
    # are UNEQUAL but add up to a multiple of the group size (or to equal totals), so that any
    # shortcut that infers the per-agent block structure from totals is wrong for them
    if ref.sparse_choices:
        fm0 = ref.filter_mask(0)
        ns = len(ref.sparse_states)
        try:
            sidx = tuple(np.clip(np.asarray(init[s_]).astype(int), 0, ref.spec[s_]["n"] - 1) for s_ in ref.sparse_states)
            per_agent = (fm0[sidx] if ns else np.broadcast_to(fm0, (N,) + fm0.shape)).reshape(N, -1).sum(axis=1)
        except Exception:  # noqa: BLE001
            per_agent = None
        if per_agent is not None and len(set(per_agent.tolist())) >= 2:
            import itertools as _it

            found = 0
            pool = rng.permutation(N)[: min(N, 14)]
            for k_ in (2, 3, 4):
                for comb in _it.combinations(pool.tolist(), k_):
                    c_ = per_agent[list(comb)]
                    if len(set(c_.tolist())) >= 2 and int(c_.sum()) % k_ == 0 and c_.min() >= 1:
                        variants[f"unequal_rows_{k_}_{found}"] = np.array(comb)
                        found += 1
                        break
                if found >= 3:
                    break
            add("c08_unequal_row_groups", found)
    varcols = ref.states + ref.choices
    inscope0 = ref.rows_in_scope({s_: np.asarray(base[s_][0]) for s_ in ref.states}, 0) if ref.states else np.ones(N, bool)
    # ... restricted to agents for which EVERY choice combination fails a filter or constraint (the
    # masked maximum is -inf by definition; rows whose objective contains NaN through extrapolation
    # next to -inf nodes are not judged: a first version compared them and alarmed on the unchanged
    # tree, where reductions over NaN differ between batch sizes)
    try:
        with np.errstate(all="ignore"):
            _, ok0, _ = ref.q_rows({s_: np.asarray(base[s_][0]) for s_ in ref.states}, 0, params, vf_full[1] if T > 1 else None)
        inscope0 = inscope0 & ~np.asarray(ok0).reshape(N, -1).any(axis=1)
    except Exception:  # noqa: BLE001 - reference cannot evaluate these rows: not judged
        inscope0 = np.zeros(N, bool)
        add("c08_feasibility_of_period0_rows_not_evaluated")
    for name, ids in variants.items():
        try:
            got = run(ids, key_order=list(reversed(ref.states)) if name == "reversed_keys" else None)
        except Exception as e:  # noqa: BLE001
            res["violations"].append({"key": pipeline.exc_key(e, "simulate_" + name), "what": pipeline.exc_text(e)})
            continue
        add("c08_variants_run")
        # period 0, agents inside the space WITHOUT a finite optimum (no feasible choice): their
        # reported decision and value are still a function of their own state only
        nf0 = inscope0[ids] & ~valid_base[0][ids]
        if nf0.any():
            d0 = np.zeros(len(ids), bool)
            for c in ref.choices + ["value"]:
                a, b = np.asarray(got[c][0], float), np.asarray(base[c][0][ids], float)
                d0 |= ~((a == b) | (np.isnan(a) & np.isnan(b)))
            add("c08_period0_rows_without_feasible_choice_compared", int(nf0.sum()))
            if (d0 & nf0).any():
                i0 = int(np.nonzero(d0 & nf0)[0][0])
                res["violations"].append({
                    "key": f"period0_depends_on_batch_without_feasible_choice:{name.split('_rows_')[0]}",
                    "what": f"variant {name}, period 0: {int((d0 & nf0).sum())}/{int(nf0.sum())} agents without any feasible choice report another decision/value than in the base batch (agent id {int(ids[i0])}: choices+value {[float(got[c][0][i0]) for c in ref.choices + ['value']]} vs {[float(base[c][0][ids][i0]) for c in ref.choices + ['value']]})"})
        agree = np.ones(len(ids), bool)
        for t in range(tcmp):
            agree = agree & valid_base[t][ids]
            diff_choice = np.zeros(len(ids), bool)
            for c in varcols if t > 0 else ref.choices:
                a, b = got[c][t], base[c][t][ids]
                d = ~((a == b) | (np.isnan(np.asarray(a, float)) & np.isnan(np.asarray(b, float))))
                diff_choice |= d
            va, vb = np.asarray(got["value"][t], float), np.asarray(base["value"][t][ids], float)
            with np.errstate(all="ignore"):
                vd = ~(((np.abs(va - vb) <= 1e-12 * (1 + np.abs(vb))) & np.isfinite(va) & np.isfinite(vb)) | (va == vb) | (np.isnan(va) & np.isnan(vb)))
            add("c08_agent_paths_compared", int(agree.sum()))
            bad = agree & (diff_choice | vd)
            if bad.any():
                # tie analysis with the reference's Q
                st_a = {s: got[s][t] for s in ref.states}
                Vn = vf_full[t + 1] if t < T - 1 else None
                with np.errstate(all="ignore"):
                    qa, _ = ref.q_at(st_a, {c: got[c][t] for c in ref.choices}, t, params, Vn)
                    qb, _ = ref.q_at(st_a, {c: base[c][t][ids] for c in ref.choices}, t, params, Vn)
                    gap = np.abs(qa - qb) / (1 + np.abs(qb))
                inscope = ref.rows_in_scope(st_a, t)
                tie = bad & ~vd & (gap <= 1e-9)
                oos = bad & ~inscope
                real = bad & ~tie & ~oos
                add("tie_ambiguous", int(tie.sum()))
                add("out_of_scope_differences", int(oos.sum()))
                if real.any():
                    i0 = int(np.nonzero(real)[0][0])
                    res["violations"].append({
                        "key": f"path_depends_on_batch:{name.split('_rows_')[0]}",
                        "what": f"variant {name}, period {t}: {int(real.sum())}/{len(ids)} agents have a different row than in the base batch (agent id {int(ids[i0])}: value {va[i0]!r} vs {vb[i0]!r}; choices {[float(got[c][t][i0]) for c in ref.choices]} vs {[float(base[c][t][ids][i0]) for c in ref.choices]})"})
                agree = agree & ~bad
    res["status"] = "violated" if res["violations"] else "held"
    res["features"] = {**{k: bool(v) for k, v in realised.items()}, "stochastic_model": stochastic, "kind_" + str(case.get("kind", "generic")): True,
                       "restricted_choices": bool(ref.sparse_choices)}
    res["sig"] = f"{dsl.shape_signature(desc)}#{pipeline.param_hash(params)}"
    res["nontrivial"] = bool(N >= 4 and cnt.get("c08_variants_run", 0) >= 2)
    res["sample"] = {"desc": {k: v for k, v in desc.items() if k not in ("tables", "params")}, "agents": N,
                     "variants": {k: [int(x) for x in v[:8]] for k, v in variants.items()}}
    return res


def aggregate(results, tier):
    inc, feats = [], {}
    for r in results:
        if r.get("status") in ("held", "violated"):
            for k, v in r.get("features", {}).items():
                if v:
                    feats[k] = feats.get(k, 0) + 1
    for k in ("restricted_choices", "stochastic_model", "mixed_discrete"):
        if feats.get(k, 0) == 0:
            inc.append(f"needed feature never realised by a judged case: {k}")
    return {"inconclusive": inc}
