"""C06 - solve and simulate agree with each other."""
import numpy as np

ID = "C06"
LEVEL = "exploration"
RULE = (
    "cases = generated supported models; (i) every in-scope simulated row whose state lies on the state "
    "grid (period 0 for on-grid initial states; every period for fully discrete models and for models "
    "whose continuous transitions map nodes to nodes) must report value == entry of lcm's own solved "
    "array of that period at that state (lookup through the reference's layout map, tol 1e-9); "
    "(ii) the frame of target 'solve_and_simulate' must equal the frame of 'simulate' fed with solve(p) "
    "(discrete columns exact, floats 1e-12). non-trivial = >= 1 on-grid row compared in a period other "
    "than the last or T == 1; distinct = (shape signature, params)."
)
ASSUMPTIONS = ["layout map of the reference (C05's oracle) is used to address lcm's solved arrays"]
BATCH = {"quick": 3, "thorough": 6}
TIMEOUT = {"quick": 1500, "thorough": 7200}
FLOORS = {
    "quick": {"c06_ongrid_rows": 1000, "c06_frames_compared": 30, "c06_ongrid_rows_later_periods": 150},
    "thorough": {"c06_ongrid_rows": 30000, "c06_frames_compared": 300, "c06_ongrid_rows_later_periods": 5000},
}


def plan(tier, seed):
    n = 66 if tier == "quick" else 800
    cases = []
    for i in range(n):
        kind = ["generic", "discrete", "node_to_node"][i % 3]
        over = {"max_T": 3 if tier == "quick" else 5}
        if kind == "discrete":
            over["n_cS"] = 0
        if kind == "node_to_node":
            over["cont_transition"] = "identity"
        cases.append({"index": i, "seed": [seed, 61, i], "cfg": "quick" if tier == "quick" else "thorough",
                      "cfg_over": over, "force": {"period_utility": i % 2 == 0}, "kind": kind,
                      "agents": 24 if tier == "quick" else 128, "env": {"VERIF_X64": "1"}})
    # continuous states on grids with integer nodes, initial values supplied as integer-typed
    # arrays: any later row whose *reported* state is a node is judged like every other one
    for i in range(12 if tier == "quick" else 150):
        cases.append({"index": i, "seed": [seed, 62, i], "cfg": "quick" if tier == "quick" else "thorough",
                      "cfg_over": {"max_T": 3 if tier == "quick" else 5, "n_cS": 1 + (i % 3 == 2)},
                      "force": {"log_grid": False}, "kind": "int_nodes",
                      "agents": 24 if tier == "quick" else 128, "env": {"VERIF_X64": "1"}})
    # the same money in other units: utility multiplied by a very small / very large constant U
    # (values of 1e-14 or 1e290 are finite, legitimate numbers); the real code runs the scaled
    # model, the reference the unscaled one, and everything reported is divided by U before judging
    for i in range(8 if tier == "quick" else 80):
        cases.append({"index": i, "seed": [seed, 63, i], "cfg": "quick" if tier == "quick" else "thorough",
                      "cfg_over": {"max_T": 3 if tier == "quick" else 5, "cont_transition": "identity" if i % 2 else None},
                      "force": {"poison": False}, "kind": "unit_scale", "unit": [1e-14, 1e290, 1e-30, 1e200][i % 4],
                      "agents": 24 if tier == "quick" else 128, "env": {"VERIF_X64": "1"}})
    return cases


def _scaled_utility(desc, U):
    import copy

    d = copy.deepcopy(desc)
    for f in d["functions"]:
        if f[0] == "utility":
            f[2] = f"{U!r} * ({f[2]})"
    return d


def _integer_nodes(desc, rng):
    """Move every linear continuous state grid onto integer nodes (step 1 or 2)."""
    for _, sp in desc["states"]:
        if sp["kind"] == "lin":
            a = int(round(sp["start"]))
            k = 1 if rng.random() < 0.8 else 2
            sp["start"], sp["stop"] = float(a), float(a + k * (sp["n"] - 1))
    return desc


def run_case(case):
    from vlib import bootstrap, dsl, gen, pipeline, simcheck
    from vlib.refmodel import Ref

    rng = pipeline.case_rng(case, 5)
    desc, realised = pipeline.model_from_case(case)
    if case.get("kind") == "int_nodes" and "desc" not in case:
        desc = _integer_nodes(desc, pipeline.case_rng(case, 6))
        pipeline.LAST["desc"] = desc
    ref = Ref(desc)
    params = desc["params"]
    refsol = ref.solve(params)
    ok, reasons = ref.supported(refsol)
    if not ok:
        return pipeline.screened_result(desc, realised, reasons)
    res = {"counters": {}, "maxima": {}, "violations": [], "features": {}, "nontrivial": False}
    cnt = res["counters"]
    N = case["agents"]
    init = gen.gen_initial_states(rng, ref, N, off_grid=0.0, out_of_range=0.0)
    if case.get("kind") == "int_nodes":
        for s_ in ref.states:
            if not ref.is_disc(s_) and np.all(np.asarray(init[s_]) == np.round(init[s_])):
                init[s_] = np.asarray(init[s_]).astype(np.int64)
                cnt["c06_int_typed_state_columns"] = cnt.get("c06_int_typed_state_columns", 0) + 1
    seed = int(rng.integers(0, 2**31 - 1))
    U = float(case.get("unit", 1.0))

    def unscale(df):
        return df.assign(value=df["value"] / U) if U != 1.0 and "value" in df.columns else df

    try:
        model = dsl.build_lcm_model(desc if U == 1.0 else _scaled_utility(desc, U))
        fsolve, _ = pipeline.get_lcm_function(model, "solve")
        fsim, _ = pipeline.get_lcm_function(model, "simulate")
        fboth, _ = pipeline.get_lcm_function(model, "solve_and_simulate")
        sol_jax = fsolve(dsl.lcm_params(params))  # the caller's own arrays, handed to simulate as they are
        sol_raw = [np.asarray(a) for a in sol_jax]
        sol = [a / U for a in sol_raw]
        df1 = unscale(simcheck.simulate_once(fsim, params, init, list(sol_jax), seed=seed))
        if case["index"] % 2 == 0:
            # the same arrays are used again afterwards: by a second simulate call and by the caller
            try:
                vf_list = list(sol_jax)  # ONE list object, passed to two calls and inspected afterwards
                ids_before = [id(a) for a in vf_list]
                df1b = unscale(simcheck.simulate_once(fsim, params, init, None, seed=seed, vf_obj=vf_list))
                df1c = unscale(simcheck.simulate_once(fsim, params, init, None, seed=seed, vf_obj=vf_list))
                again = [np.asarray(a) for a in sol_jax]
                cnt["c06_value_arrays_reused"] = 1
                if len(vf_list) != len(ids_before) or [id(a) for a in vf_list] != ids_before:
                    res["violations"].append({"key": "value_array_list_changed_by_simulate", "what": f"the list passed as vf_arr_list was changed by the call: {len(ids_before)} arrays before, now {len(vf_list)} entries ({sum(a is None for a in vf_list)} None)"})
                elif simcheck.frames_equal(df1, df1b, tol=1e-12) or simcheck.frames_equal(df1b, df1c, tol=1e-12) or any(not np.array_equal(a, b, equal_nan=True) for a, b in zip(again, sol_raw)):
                    res["violations"].append({"key": "value_arrays_changed_by_simulate", "what": "simulating twice with the same value arrays gives different frames, or the arrays passed in were changed by the call"})
            except Exception as e:  # noqa: BLE001
                res["violations"].append({"key": f"value_arrays_unusable_after_simulate|{type(e).__name__}", "what": f"the value arrays handed to simulate cannot be used again afterwards: {pipeline.exc_text(e)}"})
        p_shared = dsl.lcm_params(params)  # ONE params mapping for the solve_and_simulate function
        df2 = unscale(simcheck.simulate_once(fboth, params, init, None, seed=seed, p_obj=p_shared))
        if U != 1.0:
            cnt["c06_unit_scaled_models"] = 1
    except Exception as e:  # noqa: BLE001
        res["violations"].append({"key": pipeline.exc_key(e, "solve_or_simulate"), "what": pipeline.exc_text(e)})
        res["status"] = "violated"
        return res
    bad = simcheck.frames_equal(df1, df2, tol=1e-12)
    cnt["c06_frames_compared"] = 1
    if bad:
        res["violations"].append({"key": "solve_and_simulate_differs", "what": f"frames of 'solve_and_simulate' and 'simulate'(solve(p)) differ in columns {bad}"})
    # the same function objects called again with other parameters: judged below like the first call
    runs = [(params, sol, df1)]
    p2 = gen.perturb_params(rng, params, desc.get("frozen_params", ()))
    if case["index"] % 2 == 0:
        p2["beta"] = params["beta"]  # only nested entries differ from the first call
    if ref.supported(ref.solve(p2))[0]:
        try:
            sol2_raw = [np.asarray(a) for a in fsolve(dsl.lcm_params(p2))]
            sol2 = [a / U for a in sol2_raw]
            df3 = unscale(simcheck.simulate_once(fsim, p2, init, sol2_raw, seed=seed))
            # the mapping used for the first call, edited in place (nested dict objects kept)
            pipeline.update_params_in_place(p_shared, dsl.lcm_params(p2))
            df4 = unscale(simcheck.simulate_once(fboth, p2, init, None, seed=seed, p_obj=p_shared))
            cnt["c06_calls_with_params_edited_in_place"] = 1
            cnt["c06_second_calls"] = 1
            bad2 = simcheck.frames_equal(df3, df4, tol=1e-12)
            cnt["c06_frames_compared"] += 1
            if bad2:
                res["violations"].append({"key": "solve_and_simulate_differs", "what": f"second call (other parameters, same function objects): frames differ in columns {bad2}"})
            runs.append((p2, sol2, df3))
        except Exception as e:  # noqa: BLE001
            res["violations"].append({"key": pipeline.exc_key(e, "second_call"), "what": pipeline.exc_text(e)})
    # on-grid rows
    T = ref.T
    later_total = 0
    for run_i, (params_r, sol, df1) in enumerate(runs):
        if len(df1) == T * N and all(c in df1.columns for c in ["value"] + ref.states):
            j = simcheck.judge_panel(ref, params_r, df1, init, sol, judge_c02=False)
            valid = j["valid"]
            cols = {c: np.asarray(df1[c].values).reshape(T, N) for c in ["value"] + ref.states}
            later = 0
            for t in range(T):
                if len(sol) != T or sol[t].shape != ref.lcm_shape(t):
                    res["violations"].append({"key": "solution_shape", "what": f"period {t}: solved array has shape {sol[t].shape if t < len(sol) else None}, layout expects {ref.lcm_shape(t)}"})
                    break
                full = ref.from_lcm_layout(sol[t], t)
                idx = []
                on = valid[t].copy()
                for s in ref.state_order:
                    v = cols[s][t]
                    if ref.is_disc(s):
                        idx.append(np.clip(v.astype(int), 0, ref.spec[s]["n"] - 1))
                    else:
                        g = ref.grid[s]
                        k = np.argmin(np.abs(np.asarray(v, dtype=float)[:, None] - g[None, :]), axis=1)
                        on &= np.abs(v - g[k]) <= 1e-12 * (1 + np.abs(g[k]))
                        idx.append(k)
                exp = full[tuple(idx)]
                val = np.asarray(cols["value"][t], dtype=float)
                n_on = int(on.sum())
                cnt["c06_ongrid_rows"] = cnt.get("c06_ongrid_rows", 0) + n_on
                if t > 0:
                    later += n_on
                with np.errstate(all="ignore"):
                    dev = np.abs(val - exp) / (1 + np.abs(exp))
                dev = np.where(np.isnan(dev), np.inf, dev)
                if n_on:
                    res["maxima"]["c06_max_dev"] = max(res["maxima"].get("c06_max_dev", 0.0), float(dev[on].max()))
                    b = on & (dev > bootstrap.TOL)
                    if b.any():
                        i0 = int(np.nonzero(b)[0][0])
                        res["violations"].append({"key": "value_differs_from_solution", "what": f"call {run_i + 1}, period {t}: {int(b.sum())}/{n_on} on-grid agents report a value that differs from the solved array entry (agent {i0}: value={val[i0]!r}, solved={exp[i0]!r})"})
            later_total += later
            cnt["c06_ongrid_rows_later_periods"] = later_total
            res["nontrivial"] = bool(cnt.get("c06_ongrid_rows", 0) > 0 and (later > 0 or T == 1))
        else:
            res["violations"].append({"key": "panel_unusable", "what": "frame has wrong size/columns"})
    res["status"] = "violated" if res["violations"] else "held"
    res["features"] = {**{k: bool(v) for k, v in realised.items()}, "kind_" + case["kind"]: True}
    res["sig"] = f"{dsl.shape_signature(desc)}#{pipeline.param_hash(params)}"
    res["sample"] = {"desc": {k: v for k, v in desc.items() if k not in ("tables", "params")}, "agents": N, "kind": case["kind"],
                     "ongrid_rows": cnt.get("c06_ongrid_rows", 0)}
    return res
