"""C12 - specifications are rejected up front or run to completion."""
import itertools

import numpy as np

ID = "C12"
LEVEL = "exploration"
RULE = (
    "(a) rejection: a valid base model (template or generated) + 1-3 injected violations of the documented "
    "rules (n_periods < 1, no utility, state without transition, name used as state and choice, non-grid / "
    "non-callable entries, non-dict containers, non-string keys, stochastic transition on or depending on a "
    "continuous variable, filter with a parameter, invalid grid of every C16 kind); ground truth by "
    "construction; the specification must be rejected by Model(...), the grid constructor or "
    "get_lcm_function(...) with ModelInitilizationError / GridInitializationError / ValueError - all single "
    "violations and all pairs are enumerated. (b) accepted => runnable: a lattice of accepted model shapes "
    "wider than 'supported' (choice-only filter, state-only filter, state used only in transitions, no "
    "states, no choices, stochastic transition without dependencies / only _period, restricted+unrestricted "
    "discrete choices, one period, restricted stochastic state, filter on a continuous variable, filter via an "
    "auxiliary function, next_ function of a non-state, single-point grids, discrete-only, ...), each feature "
    "alone in its own slice plus pairs, and generated models: every accepted specification is solved and "
    "simulated with parameters following the template; any exception is a violation keyed by (feature, stage, "
    "exception type, innermost lcm frame). non-trivial = every judged case; distinct = (injections) resp. (features)."
)
ASSUMPTIONS = ["'accepted => runnable' is explored over the lattice above and generated models, not over all Python objects"]
BATCH = {"quick": 6, "thorough": 10}
TIMEOUT = {"quick": 1500, "thorough": 7200}
FLOORS = {"quick": {"invalid_specs": 250, "rejected_correctly": 200, "accepted_models_run": 40, "solve_runs": 40, "simulate_runs": 40},
          "thorough": {"invalid_specs": 1000, "rejected_correctly": 900, "accepted_models_run": 300, "solve_runs": 300, "simulate_runs": 300}}

INJECTIONS = [
    "n_periods_zero", "n_periods_negative", "no_utility", "state_without_transition", "name_state_and_choice",
    "state_not_a_grid", "choice_not_a_grid", "function_not_callable", "functions_not_dict", "states_not_dict",
    "choices_not_dict", "state_key_not_string", "function_key_not_string", "stochastic_on_continuous",
    "stochastic_depends_on_continuous", "filter_with_parameter",
    "grid_start_ge_stop", "grid_n_points_zero", "grid_non_numeric", "grid_nan", "grid_log_nonpositive", "grid_bad_categories",
]
# contexts in which a rule can be violated (enumerated for every single injection on
# every base; drawn at random inside pairs/triples)
VARIANTS = {
    "n_periods_negative": ["minus2", "minus1"],
    "state_without_transition": ["first", "last"],
    "name_state_and_choice": ["state_into_choices_first", "state_into_choices_last"],
    "state_not_a_grid": ["list", "tuple", "ndarray", "none", "grid_class", "dict", "jnp_array"],
    "choice_not_a_grid": ["tuple", "list", "ndarray", "none", "grid_class", "jnp_array"],
    "function_not_callable": ["extra_float", "extra_none", "extra_string", "replace_constraint_by_float", "extra_dict"],
    "stochastic_depends_on_continuous": ["disc_state_and_cont_state", "cont_state_only", "cont_choice", "disc_state_and_cont_choice"],
    "filter_with_parameter": ["state_choice_param", "state_param", "choice_param", "period_param", "param_only", "two_params"],
    "grid_start_ge_stop": ["equal_state", "greater_state", "equal_choice", "log_equal"],
    "grid_n_points_zero": ["zero", "negative", "float"],
    "grid_non_numeric": ["str_start", "none_stop", "str_n_points"],
    "grid_nan": ["nan_start", "inf_stop", "neg_inf_start"],
    "grid_log_nonpositive": ["zero", "negative"],
    "grid_bad_categories": ["gap", "duplicate", "unordered", "float_half", "not_dataclass", "empty", "near_integer", "near_zero"],
}
FEATURES_B = [
    "base", "choice_only_filter", "state_only_filter", "aux_state", "no_states", "no_choices", "stoch_zero_deps",
    "stoch_period_only", "mixed_discrete", "one_period", "restricted_stochastic_state", "filter_on_continuous",
    "filter_via_aux", "next_for_non_state", "single_point_choice_grid", "discrete_only", "no_constraints_no_cont",
    "two_cont_choices", "constraint_with_aux_param", "period_everywhere", "stoch_dep_on_choice_only",
    "default_valued_params", "default_valued_some",
]


def plan(tier, seed):
    q = tier == "quick"
    cases = []
    singles = [[x] for x in INJECTIONS]
    pairs = [list(p) for p in itertools.combinations(INJECTIONS, 2)]
    chunks = 10 if q else 20
    for k in range(chunks):
        cases.append({"kind": "reject", "sets": [s for j, s in enumerate(singles + pairs) if j % chunks == k], "base": ["mixed_discrete"], "seed": [seed, 121, k], "env": {"VERIF_X64": "1"}})
    # every single rule violation also on structurally different bases (one period, two continuous
    # choices + period dependence, stochastic restricted state)
    for bi, base in enumerate([["mixed_discrete", "one_period"], ["two_cont_choices", "period_everywhere"], ["restricted_stochastic_state", "mixed_discrete"]]):
        for k in range(2):
            cases.append({"kind": "reject", "sets": [s for j, s in enumerate(singles) if j % 2 == k], "base": base, "seed": [seed, 127, bi, k], "env": {"VERIF_X64": "1"}})
    # every context variant of every single rule violation, on bases with and without other filters
    vlist = [[n, v] for n in INJECTIONS for v in VARIANTS.get(n, [])]
    vbases = [["base"], ["mixed_discrete"], ["discrete_only"], ["two_cont_choices", "period_everywhere"]] if q else \
        [["base"], ["mixed_discrete"], ["discrete_only"], ["two_cont_choices", "period_everywhere"], ["one_period"],
         ["restricted_stochastic_state", "mixed_discrete"], ["no_choices"], ["filter_via_aux"], ["stoch_period_only"]]
    for bi, base in enumerate(vbases):
        for k in range(2):
            cases.append({"kind": "reject_variants", "variants": [x for j, x in enumerate(vlist) if j % 2 == k], "base": base,
                          "seed": [seed, 128, bi, k], "env": {"VERIF_X64": "1"}})
    for i in range(8 if q else 60):
        trip = None
        cases.append({"kind": "reject_generated", "index": i, "seed": [seed, 122, i], "cfg": "quick", "n_sets": 10, "env": {"VERIF_X64": "1"}})
    for f in FEATURES_B:
        cases.append({"kind": "accept", "features": [f], "seed": [seed, 123, FEATURES_B.index(f)], "env": {"VERIF_X64": "1"}})
    if not q:
        for a, b in itertools.combinations(FEATURES_B[1:], 2):
            cases.append({"kind": "accept", "features": [a, b], "seed": [seed, 124, FEATURES_B.index(a), FEATURES_B.index(b)], "env": {"VERIF_X64": "1"}})
    else:
        for a, b in (("aux_state", "one_period"), ("state_only_filter", "one_period"), ("mixed_discrete", "one_period")):
            cases.append({"kind": "accept", "features": [a, b], "seed": [seed, 124, FEATURES_B.index(a), FEATURES_B.index(b)], "env": {"VERIF_X64": "1"}})
        rng = np.random.default_rng([seed, 125])
        allp = list(itertools.combinations(FEATURES_B[1:], 2))
        for j in rng.permutation(len(allp))[:24]:
            a, b = allp[int(j)]
            cases.append({"kind": "accept", "features": [a, b], "seed": [seed, 124, FEATURES_B.index(a), FEATURES_B.index(b)], "env": {"VERIF_X64": "1"}})
    for i in range(20 if q else 200):
        cases.append({"kind": "accept_generated", "index": i, "seed": [seed, 126, i], "cfg": "quick", "cfg_over": {"max_T": 3}, "env": {"VERIF_X64": "1"}})
    return cases


# --------------------------------------------------------------------------------------
# (b) lattice of accepted shapes
# --------------------------------------------------------------------------------------
def lattice_desc(features, rng):
    F = set(features)
    T = 1 if "one_period" in F else 3
    states = [["w", {"kind": "lin", "start": 1.0, "stop": 10.0, "n": 5}], ["h", {"kind": "disc", "n": 2}]]
    choices = [["c", {"kind": "lin", "start": 0.5, "stop": 5.0, "n": 4}], ["d", {"kind": "disc", "n": 2}]]
    fns = {
        "utility": [["c", "d", "w", "h", "dis"], "xp.log(c) - dis * d + 0.1 * h * xp.sqrt(w)"],
        "next_w": [["w", "c", "d", "r"], "(1 + r) * (w - c) + 2.0 * d"],
        "next_h": [["h", "d"], "xp.where(d == 1, h, 1 - h)"],
        "bc_constraint": [["c", "w"], "c <= w"],
    }
    params = {"beta": 0.93, "utility": {"dis": 0.4}, "next_w": {"r": 0.04}, "next_h": {}, "bc_constraint": {}}
    stochastic, tables = [], {}
    if "discrete_only" in F or "no_constraints_no_cont" in F:
        states = [["h", {"kind": "disc", "n": 3}]]
        choices = [["d", {"kind": "disc", "n": 2}]]
        fns = {"utility": [["d", "h"], "0.3 * d * h - 0.1 * d"], "next_h": [["h", "d"], "xp.minimum(h + d, 2)"]}
        params = {"beta": 0.93, "utility": {}, "next_h": {}}
    if "no_states" in F:
        states = []
        fns = {"utility": [["c", "d", "dis"], "xp.log(c) - dis * d"]}
        params = {"beta": 0.93, "utility": {"dis": 0.4}}
    if "no_choices" in F:
        choices = []
        if any(s_ == "w" for s_, _ in states):
            fns = {"utility": [["w", "h"], "xp.sqrt(w) + h"], "next_w": [["w", "r"], "(1 + r) * w"], "next_h": [["h"], "h"]}
            params = {"beta": 0.93, "utility": {}, "next_w": {"r": 0.01}, "next_h": {}}
        elif states:
            fns = {"utility": [["h"], "0.3 * h"], "next_h": [["h"], "h"]}
            params = {"beta": 0.93, "utility": {}, "next_h": {}}
        else:
            fns = {"utility": [["dis"], "dis * 1.0"]}
            params = {"beta": 0.93, "utility": {"dis": 0.4}}
    snames = [s for s, _ in states]
    cnames = [c for c, _ in choices]
    if "mixed_discrete" in F and "h" in snames and "d" in cnames:
        choices.append(["e", {"kind": "disc", "n": 3}])
        fns["utility"][0].append("e")
        fns["utility"][1] += " + 0.07 * e - 0.03 * e * e"
        fns["abs_filter"] = [["d", "h"], "xp.logical_or(d == 1, h == 0)"]
        params["abs_filter"] = {}
    if "choice_only_filter" in F and "d" in cnames:
        fns["co_filter"] = [["d"], "d <= 1"]
        params["co_filter"] = {}
    if "state_only_filter" in F and "h" in snames:
        fns["so_filter"] = [["h"], "h >= 0"]
        params["so_filter"] = {}
    if "filter_on_continuous" in F and "w" in snames and "d" in cnames:
        fns["fc_filter"] = [["w", "d"], "xp.logical_or(w >= 0, d == 0)"]
        params["fc_filter"] = {}
    if "filter_via_aux" in F and "h" in snames and "d" in cnames:
        fns["hd_sum"] = [["h", "d"], "h + d"]
        fns["va_filter"] = [["hd_sum"], "hd_sum <= 2"]
        params["hd_sum"] = {}
        params["va_filter"] = {}
    if "aux_state" in F and "w" in snames:
        states.append(["z", {"kind": "disc", "n": 2}])
        fns["next_z"] = [["z"], "z"]
        params["next_z"] = {}
        a, e = fns["next_w"]
        fns["next_w"] = [a + ["z"], e + " + 0.5 * z"]
    if "next_for_non_state" in F:
        fns["next_ghost"] = [[snames[0]] if snames else [cnames[0]], f"{(snames or cnames)[0]} * 1"]
        params["next_ghost"] = {}
    if "single_point_choice_grid" in F and "c" in cnames:
        choices = [[c, ({"kind": "lin", "start": 0.5, "stop": 5.0, "n": 1} if c == "c" else sp)] for c, sp in choices]
    if "two_cont_choices" in F and "w" in snames and "c" in cnames:
        choices.append(["x", {"kind": "lin", "start": 0.0, "stop": 3.0, "n": 3}])
        fns["utility"][0].append("x")
        fns["utility"][1] += " + xp.sqrt(1 + x)"
        a, e = fns["next_w"]
        fns["next_w"] = [a + ["x"], e + " - 0.5 * x"]
    if "constraint_with_aux_param" in F and "w" in snames and "c" in cnames and "d" in cnames:
        fns["inc"] = [["d", "wage"], "d * wage"]
        params["inc"] = {"wage": 1.5}
        fns["bc_constraint"] = [["c", "w", "inc"], "c <= w + inc"]
    if "period_everywhere" in F and "h" in snames and "d" in cnames:
        fns["utility"][0].append("_period")
        fns["utility"][1] += " + 0.01 * _period"
        fns["next_h"] = [["h", "d", "_period"], "xp.where(d == 1, h, (h + _period) % 2)"]
        fns["pd_constraint"] = [["d", "_period"], "d <= _period + 1"]
        params["pd_constraint"] = {}
    nh = dict(states).get("h", {}).get("n")
    if nh:
        if "stoch_zero_deps" in F:
            fns["next_h"] = [[], "None"]
            stochastic.append("next_h")
            p = rng.random(nh) + 0.1
            params["shocks"] = {"h": (p / p.sum()).tolist()}
        elif "stoch_period_only" in F:
            fns["next_h"] = [["_period"], "None"]
            stochastic.append("next_h")
            p = rng.random((T, nh)) + 0.1
            params["shocks"] = {"h": (p / p.sum(-1, keepdims=True)).tolist()}
        elif "stoch_dep_on_choice_only" in F and "d" in cnames:
            fns["next_h"] = [["d"], "None"]
            stochastic.append("next_h")
            p = rng.random((2, nh)) + 0.1
            params["shocks"] = {"h": (p / p.sum(-1, keepdims=True)).tolist()}
        elif "restricted_stochastic_state" in F and "d" in cnames:
            fns["next_h"] = [["h", "d"], "None"]
            stochastic.append("next_h")
            p = rng.random((nh, 2, nh)) + 0.1
            params["shocks"] = {"h": (p / p.sum(-1, keepdims=True)).tolist()}
            if not any(k.endswith("_filter") for k in fns):
                fns["rs_filter"] = [["h", "d"], "xp.logical_or(d <= 1, h == 0)"]
                params["rs_filter"] = {}
    if "default_valued_params" in F or "default_valued_some" in F:
        # parameters written with Python default values (`def utility(c, d, dis=0.4)`): legal
        # signatures; the template still lists them and the values passed in params are used
        some = "default_valued_some" in F and "default_valued_params" not in F
        for k, v in fns.items():
            pn = [a for a in v[0] if a in params.get(k, {})]
            if some:
                pn = pn[1:] if len(pn) > 1 else (pn if k != "utility" else [])
            v[0] = [a for a in v[0] if a not in pn] + [f"{a}={params[k][a] + 0.25!r}" for a in pn]
    return {"n_periods": T, "states": states, "choices": choices, "functions": [[k, v[0], v[1]] for k, v in fns.items()],
            "stochastic": stochastic, "tables": tables, "params": params}


def init_states_for(desc, N, rng):
    init = {}
    for s, sp in desc["states"]:
        if sp["kind"] == "disc":
            init[s] = rng.integers(0, sp["n"], N)
        else:
            init[s] = rng.uniform(sp["start"], sp["stop"], N)
    return init


def fill_template(tmpl, params):
    """Parameters that follow the template: values from `params` where known, else 0.5."""
    import jax.numpy as jnp

    out = {}
    for k, v in tmpl.items():
        if k == "beta":
            out[k] = params.get("beta", 0.9)
        elif k == "shocks":
            out[k] = {}
            for s, a in v.items():
                shp = np.shape(a)
                if s in params.get("shocks", {}) and np.shape(params["shocks"][s]) == shp:
                    out[k][s] = jnp.asarray(np.asarray(params["shocks"][s], dtype=float))
                else:
                    out[k][s] = jnp.full(shp, 1.0 / shp[-1])
        else:
            out[k] = {p: params.get(k, {}).get(p, 0.5) for p in v}
    return out


def run_accept(desc, res, add, feature_key, rng, init=None):
    """Accepted => solve and simulate must run."""
    from lcm.exceptions import GridInitializationError, ModelInitilizationError

    from vlib import dsl, pipeline

    try:
        model = dsl.build_lcm_model(desc)
        fsolve, tmpl = pipeline.get_lcm_function(model, "solve")
        fboth, _ = pipeline.get_lcm_function(model, "solve_and_simulate")
    except (ModelInitilizationError, GridInitializationError, ValueError) as e:
        add("rejected_up_front")
        res.setdefault("rejections", []).append(f"{feature_key}: {type(e).__name__}")
        return "rejected"
    except Exception as e:  # noqa: BLE001
        res["violations"].append({"key": f"creation_wrong_exception|feature={feature_key}|{pipeline.exc_key(e, 'create')}", "what": f"features {feature_key}: creating the model/functions raised {pipeline.exc_text(e)} (neither the initialization errors nor ValueError)"})
        return "violation"
    add("accepted_models_run")
    p = fill_template(tmpl, desc["params"])
    try:
        sol = fsolve(p)
        arrs = [np.asarray(a) for a in sol]
        add("solve_runs")
        # "can be solved": the result is one array per period in one of the admissible layouts
        # (states that no function except transitions uses may or may not get an axis)
        try:
            from vlib.refmodel import Ref as _Ref

            r_ = _Ref(desc)
            used = {a_ for n_, args_, _ in desc["functions"] if not n_.startswith("next_") for a_ in args_}
            ok_shapes = True
            if len(arrs) != desc["n_periods"]:
                ok_shapes = False
            else:
                for t_, a_ in enumerate(arrs):
                    full = tuple(r_.lcm_shape(t_))
                    order = (["__sparse__"] if r_.sparse_states else []) + r_.dense_disc_states + r_.cont_states
                    reduced = tuple(n_ for n_, v_ in zip(full, order) if v_ == "__sparse__" or v_ in used)
                    if tuple(a_.shape) not in (full, reduced):
                        ok_shapes = False
                        bad_ = (t_, tuple(a_.shape), full, reduced)
                        break
            add("accepted_solutions_shape_checked")
            if not ok_shapes:
                # recorded, not judged: the statement of C12 is about running to completion; the
                # layout is C05's statement, which does not cover these unsupported shapes (a first
                # version judged it and raised a false alarm on choice_only_filter+discrete_only)
                add("accepted_solutions_with_unexpected_layout")
                res.setdefault("localisation", []).append(f"features {feature_key}: solve returned {len(arrs)} arrays, first unexpected shape {bad_[1] if len(arrs) == desc['n_periods'] else '-'} (layouts derived from the layout contract: {bad_[2:] if len(arrs) == desc['n_periods'] else desc['n_periods']})")
        except Exception:  # noqa: BLE001 - shapes of exotic lattice models: not judged
            add("accepted_solutions_shape_not_judged")
    except Exception as e:  # noqa: BLE001
        res["violations"].append({"key": f"accepted_but_fails|feature={feature_key}|{pipeline.exc_key(e, 'solve')}", "what": f"features {feature_key}: accepted specification fails in solve: {pipeline.exc_text(e)}"})
        return "violation"
    try:
        init = init_states_for(desc, 6, rng) if init is None else init
        df = fboth(p, initial_states=pipeline.jnp_states(init), seed=1)
        len(df)
        add("simulate_runs")
    except Exception as e:  # noqa: BLE001
        res["violations"].append({"key": f"accepted_but_fails|feature={feature_key}|{pipeline.exc_key(e, 'simulate')}", "what": f"features {feature_key}: accepted specification fails in simulate: {pipeline.exc_text(e)}"})
        return "violation"
    return "ok"


# --------------------------------------------------------------------------------------
# (a) injected rule violations
# --------------------------------------------------------------------------------------
def build_kwargs(desc):
    import jax.numpy as jnp
    import lcm

    from vlib import dsl

    return {
        "n_periods": desc["n_periods"],
        "functions": dsl.make_funcs(desc, jnp, mark_stochastic=lcm.mark.stochastic),
        "choices": {k: dsl.make_grid(v) for k, v in desc["choices"]},
        "states": {k: dsl.make_grid(v) for k, v in desc["states"]},
    }


class GridRejected(Exception):
    pass


class NotApplicable(Exception):
    pass


def inject(kw, desc, name, rng, variant=None):
    """Apply one rule violation to the Model kwargs. May raise GridRejected if the grid
    constructor itself (correctly) rejects, NotApplicable if the base lacks what the
    variant needs."""
    import numpy as _np

    if variant is None and name in VARIANTS:
        variant = VARIANTS[name][int(rng.integers(0, len(VARIANTS[name])))] if rng.random() < 0.5 else None
    import lcm
    from lcm import DiscreteGrid, LinspaceGrid, LogspaceGrid
    from lcm.exceptions import GridInitializationError

    st = [s for s, _ in desc["states"]]
    ch = [c for c, _ in desc["choices"]]
    cont_s = [s for s, sp in desc["states"] if sp["kind"] != "disc"]
    disc_s = [s for s, sp in desc["states"] if sp["kind"] == "disc"]

    cont_c = [c for c, sp in desc["choices"] if sp["kind"] != "disc"]
    disc_c = [c for c, sp in desc["choices"] if sp["kind"] == "disc"]

    def need(*lists):
        if not all(lists):
            raise NotApplicable(f"{name}/{variant}")

    def bad_grid(maker, where=None):
        try:
            g = maker()
        except GridInitializationError as e:
            raise GridRejected(str(e)) from e
        target = "states" if st else "choices"
        if where == "choice":
            need(ch)
            target = "choices"
        key = (st if target == "states" else ch)[0]
        kw[target] = {**kw[target], key: g}

    def nongrid(v):
        import jax.numpy as jnp

        return {"list": [0, 1, 2], "tuple": (0.0, 1.0), "ndarray": _np.arange(3), "none": None, "grid_class": LinspaceGrid,
                "dict": {"start": 0, "stop": 1, "n_points": 3}, "jnp_array": jnp.arange(3)}[v]

    if variant is not None:
        done = True
        if name == "n_periods_negative":
            kw["n_periods"] = -2 if variant == "minus2" else -1
        elif name == "state_without_transition":
            need(st)
            s_ = st[0] if variant == "first" else st[-1]
            kw["functions"] = {k: v for k, v in kw["functions"].items() if k != f"next_{s_}"}
        elif name == "name_state_and_choice":
            need(st)
            s_ = st[0] if variant.endswith("first") else st[-1]
            kw["choices"] = {**kw["choices"], s_: kw["states"][s_]}
        elif name == "state_not_a_grid":
            need(st)
            kw["states"] = {**kw["states"], st[-1]: nongrid(variant)}
        elif name == "choice_not_a_grid":
            need(ch)
            kw["choices"] = {**kw["choices"], ch[-1]: nongrid(variant)}
        elif name == "function_not_callable":
            if variant == "replace_constraint_by_float":
                cons = [k for k in kw["functions"] if k.endswith("_constraint")]
                need(cons)
                kw["functions"] = {**kw["functions"], cons[0]: 1.0}
            else:
                val = {"extra_float": 3.0, "extra_none": None, "extra_string": "utility", "extra_dict": {"a": 1}}[variant]
                kw["functions"] = {**kw["functions"], "helper_value": val}
        elif name == "stochastic_depends_on_continuous":
            need(disc_s)
            s_ = disc_s[0]
            if variant == "disc_state_and_cont_state":
                need(cont_s)
                args = [s_, cont_s[0]]
            elif variant == "cont_state_only":
                need(cont_s)
                args = [cont_s[0]]
            elif variant == "cont_choice":
                need(cont_c)
                args = [cont_c[0]]
            else:
                need(cont_c)
                args = [s_, cont_c[0]]
            ns = {}
            exec(f"def next_{s_}({', '.join(args)}):\n    pass\n", ns)  # noqa: S102
            kw["functions"] = {**kw["functions"], f"next_{s_}": lcm.mark.stochastic(ns[f"next_{s_}"])}
        elif name == "filter_with_parameter":
            if variant == "state_choice_param":
                need(disc_s, disc_c)
                src = f"def p_filter({disc_s[0]}, {disc_c[0]}, cutoff):\n    return {disc_c[0]} <= {disc_s[0]} + cutoff\n"
            elif variant == "state_param":
                need(disc_s)
                src = f"def p_filter({disc_s[0]}, cutoff):\n    return {disc_s[0]} <= cutoff + 10\n"
            elif variant == "choice_param":
                need(disc_c)
                src = f"def p_filter({disc_c[0]}, cutoff):\n    return {disc_c[0]} <= cutoff + 10\n"
            elif variant == "period_param":
                src = "def p_filter(_period, cutoff):\n    return _period <= cutoff + 10\n"
            elif variant == "param_only":
                src = "def p_filter(cutoff):\n    return cutoff <= 10\n"
            else:
                need(disc_s)
                src = f"def p_filter({disc_s[0]}, lo, hi):\n    return ({disc_s[0]} >= lo - 10) & ({disc_s[0]} <= hi + 10)\n"
            ns = {}
            exec(src, ns)  # noqa: S102
            kw["functions"] = {**kw["functions"], "p_filter": ns["p_filter"]}
        elif name == "grid_start_ge_stop":
            mk = {"equal_state": (lambda: LinspaceGrid(start=5.0, stop=5.0, n_points=4), None),
                  "greater_state": (lambda: LinspaceGrid(start=6.0, stop=5.0, n_points=4), None),
                  "equal_choice": (lambda: LinspaceGrid(start=2, stop=2, n_points=3), "choice"),
                  "log_equal": (lambda: LogspaceGrid(start=2.0, stop=2.0, n_points=3), None)}[variant]
            bad_grid(mk[0], mk[1])
        elif name == "grid_n_points_zero":
            n_ = {"zero": 0, "negative": -3, "float": 2.5}[variant]
            bad_grid(lambda: LinspaceGrid(start=1.0, stop=5.0, n_points=n_))
        elif name == "grid_non_numeric":
            mk = {"str_start": lambda: LinspaceGrid(start="1", stop=5.0, n_points=3),
                  "none_stop": lambda: LinspaceGrid(start=1.0, stop=None, n_points=3),
                  "str_n_points": lambda: LinspaceGrid(start=1.0, stop=5.0, n_points="3")}[variant]
            bad_grid(mk)
        elif name == "grid_nan":
            mk = {"nan_start": lambda: LinspaceGrid(start=float("nan"), stop=5.0, n_points=3),
                  "inf_stop": lambda: LinspaceGrid(start=1.0, stop=float("inf"), n_points=3),
                  "neg_inf_start": lambda: LogspaceGrid(start=float("-inf"), stop=5.0, n_points=3)}[variant]
            bad_grid(mk)
        elif name == "grid_log_nonpositive":
            st_ = 0.0 if variant == "zero" else -1.0
            bad_grid(lambda: LogspaceGrid(start=st_, stop=5.0, n_points=3))
        elif name == "grid_bad_categories":
            from dataclasses import make_dataclass

            if variant == "not_dataclass":
                class Plain:  # noqa: D401
                    a = 0
                    b = 1

                bad_grid(lambda: DiscreteGrid(Plain))
            else:
                vals = {"gap": (0, 2), "duplicate": (0, 0, 1), "unordered": (1, 0), "float_half": (0, 0.5, 2), "empty": (),
                        "near_integer": (0, 1.000001), "near_zero": (1e-9, 1)}[variant]
                bad_grid(lambda: DiscreteGrid(make_dataclass("Cat", [(f"f{i}", float if isinstance(v, float) else int, v) for i, v in enumerate(vals)])))
        else:
            done = False
        if done:
            return

    if name == "n_periods_zero":
        kw["n_periods"] = 0
    elif name == "n_periods_negative":
        kw["n_periods"] = -2
    elif name == "no_utility":
        kw["functions"] = {k: v for k, v in kw["functions"].items() if k != "utility"}
    elif name == "state_without_transition":
        kw["functions"] = {k: v for k, v in kw["functions"].items() if k != f"next_{st[0]}"}
    elif name == "name_state_and_choice":
        kw["choices"] = {**kw["choices"], st[0]: kw["states"][st[0]]}
    elif name == "state_not_a_grid":
        kw["states"] = {**kw["states"], st[-1]: [0, 1, 2]}
    elif name == "choice_not_a_grid":
        kw["choices"] = {**kw["choices"], ch[-1]: (0.0, 1.0)}
    elif name == "function_not_callable":
        kw["functions"] = {**kw["functions"], "helper_value": 3.0}
    elif name == "functions_not_dict":
        kw["functions"] = list(kw["functions"].items())
    elif name == "states_not_dict":
        kw["states"] = list(kw["states"].items())
    elif name == "choices_not_dict":
        kw["choices"] = tuple(kw["choices"].items())
    elif name == "state_key_not_string":
        d = dict(kw["states"])
        d[7] = d[st[-1]]
        kw["states"] = d
        kw["functions"] = {**kw["functions"], "next_7": (lambda: 0)}
    elif name == "function_key_not_string":
        kw["functions"] = {**kw["functions"], 3: (lambda: 0)}
    elif name == "stochastic_on_continuous":
        s = cont_s[0]
        f = lambda: None  # noqa: E731
        f.__name__ = f"next_{s}"
        kw["functions"] = {**kw["functions"], f"next_{s}": lcm.mark.stochastic(f)}
    elif name == "stochastic_depends_on_continuous":
        s, c = disc_s[0], cont_s[0]
        ns = {}
        exec(f"def next_{s}({s}, {c}):\n    pass\n", ns)  # noqa: S102
        kw["functions"] = {**kw["functions"], f"next_{s}": lcm.mark.stochastic(ns[f"next_{s}"])}
    elif name == "filter_with_parameter":
        s, c = disc_s[0], [x for x, sp in desc["choices"] if sp["kind"] == "disc"][0]
        ns = {}
        exec(f"def p_filter({s}, {c}, cutoff):\n    return {c} <= {s} + cutoff\n", ns)  # noqa: S102
        kw["functions"] = {**kw["functions"], "p_filter": ns["p_filter"]}
    elif name == "grid_start_ge_stop":
        bad_grid(lambda: LinspaceGrid(start=5.0, stop=5.0, n_points=4))
    elif name == "grid_n_points_zero":
        bad_grid(lambda: LinspaceGrid(start=1.0, stop=5.0, n_points=0))
    elif name == "grid_non_numeric":
        bad_grid(lambda: LinspaceGrid(start="1", stop=5.0, n_points=3))
    elif name == "grid_nan":
        bad_grid(lambda: LinspaceGrid(start=float("nan"), stop=5.0, n_points=3))
    elif name == "grid_log_nonpositive":
        bad_grid(lambda: LogspaceGrid(start=0.0, stop=5.0, n_points=3))
    elif name == "grid_bad_categories":
        from dataclasses import make_dataclass

        bad_grid(lambda: DiscreteGrid(make_dataclass("Cat", [("a", int, 0), ("b", int, 2)])))
    else:
        raise ValueError(name)


def judge_invalid(desc, names, res, add, rng, variants=None):
    import lcm
    from lcm.exceptions import GridInitializationError, ModelInitilizationError

    from vlib import pipeline

    add("invalid_specs")
    kw = build_kwargs(desc)
    label = "+".join(names)
    if variants:
        label = "+".join(f"{n}/{v}" for n, v in zip(names, variants))
    try:
        order = sorted(range(len(names)), key=lambda i: names[i].endswith("_not_dict"))
        for i in order:
            inject(kw, desc, names[i], rng, variants[i] if variants else None)
    except GridRejected:
        add("rejected_correctly")
        add("rejected_by_grid_constructor")
        return
    except (NotApplicable, IndexError):
        add("invalid_specs", -1)
        add("injection_not_applicable_to_base")
        return
    stage = "Model"
    try:
        model = lcm.Model(**kw)
        stage = "get_lcm_function"
        f, tmpl = pipeline.get_lcm_function(model, "solve")
        stage = "get_lcm_function(simulate)"
        pipeline.get_lcm_function(model, "solve_and_simulate")
    except (ModelInitilizationError, GridInitializationError, ValueError):
        add("rejected_correctly")
        add("rejected_at_" + stage.split("(")[0])
        return
    except Exception as e:  # noqa: BLE001
        res["violations"].append({"key": f"rejected_with_wrong_exception|rule={names[0] if (len(names) == 1 and not variants) else label}|stage={stage}|type={type(e).__name__}",
                                  "what": f"specification with rule violation(s) [{label}] was rejected at {stage} with {pipeline.exc_text(e)} instead of the initialization error / ValueError"})
        return
    # silently accepted: does it fail later?
    later = "runs"
    try:
        p = fill_template(tmpl, desc["params"])
        f(p)
    except Exception as e:  # noqa: BLE001
        later = f"fails later in solve with {type(e).__name__}"
    res["violations"].append({"key": f"invalid_spec_accepted|rule={names[0] if (len(names) == 1 and not variants) else label}",
                              "what": f"specification with rule violation(s) [{label}] was accepted by Model(...) and get_lcm_function(...); it then {later}"})


def run_case(case):
    from vlib import dsl, gen, pipeline
    from vlib.refmodel import Ref

    rng = pipeline.case_rng(case)
    res = {"counters": {}, "maxima": {}, "violations": [], "features": {}, "nontrivial": True}
    cnt = res["counters"]

    def add(k, n=1):
        cnt[k] = cnt.get(k, 0) + int(n)

    kind = case["kind"]
    if kind == "reject":
        base = lattice_desc(case.get("base") or ["mixed_discrete"], rng)
        for names in case["sets"]:
            judge_invalid(base, names, res, add, rng)
        res["sig"] = f"reject{case['seed']}{case.get('base')}"
        res["distinct"] = len(case["sets"])
        res["sample"] = {"kind": "reject", "injection_sets": case["sets"][:6], "base": case.get("base")}
    elif kind == "reject_variants":
        base = lattice_desc(case.get("base") or ["base"], rng)
        for n, v in case["variants"]:
            judge_invalid(base, [n], res, add, rng, variants=[v])
            add("variant_contexts_judged")
        res["sig"] = f"rejectvar{case['seed']}{case.get('base')}"
        res["distinct"] = len(case["variants"])
        res["sample"] = {"kind": "reject_variants", "variants": case["variants"][:8], "base": case.get("base")}
    elif kind == "reject_generated":
        desc, realised = pipeline.model_from_case({**case, "force": {"filters": True, "two_cont_states": False}})
        st = [s for s, sp in desc["states"]]
        has = {"cont_s": any(sp["kind"] != "disc" for _, sp in desc["states"]), "disc_s": any(sp["kind"] == "disc" for _, sp in desc["states"]),
               "disc_c": any(sp["kind"] == "disc" for _, sp in desc["choices"]), "ch": bool(desc["choices"])}
        ok_inj = [n for n in INJECTIONS if not (
            (n in ("stochastic_on_continuous",) and not has["cont_s"]) or
            (n == "stochastic_depends_on_continuous" and not (has["cont_s"] and has["disc_s"])) or
            (n == "filter_with_parameter" and not (has["disc_s"] and has["disc_c"])) or
            (n in ("choice_not_a_grid", "choices_not_dict") and not has["ch"]))]
        sets = []
        for _ in range(case["n_sets"]):
            k = int(rng.integers(1, 4))
            sets.append([str(x) for x in rng.permutation(ok_inj)[:k]])
        for names in sets:
            judge_invalid(desc, names, res, add, rng)
        res["sig"] = f"rejgen{dsl.shape_signature(desc)}"
        res["distinct"] = len(sets)
        res["sample"] = {"kind": "reject_generated", "injection_sets": sets[:5], "signature": dsl.shape_signature(desc)}
    elif kind == "accept":
        desc = lattice_desc(case["features"], rng)
        fk = "+".join(sorted(case["features"]))
        o = run_accept(desc, res, add, fk, rng)
        if o == "violation" and len(case["features"]) > 1:
            # which feature is responsible? re-run each feature alone and compare the
            # failure signature (stage, exception type, innermost lcm frame)
            sig = lambda k: k.split("|", 2)[2] if k.count("|") >= 2 else k  # noqa: E731
            mine = res["violations"][-1]
            for f1 in case["features"]:
                tmp = {"violations": [], "counters": {}}
                run_accept(lattice_desc([f1], pipeline.case_rng(case)), tmp, (lambda *a, **k: None), f1, pipeline.case_rng(case))
                if tmp["violations"] and sig(tmp["violations"][-1]["key"]) == sig(mine["key"]):
                    mine["key"] = tmp["violations"][-1]["key"]
                    mine["what"] += f" [same failure as feature {f1} alone]"
                    break
        res["sig"] = f"accept:{fk}"
        res["distinct"] = 1
        res["outcome"] = {fk: o}
        res["sample"] = {"kind": "accept", "features": case["features"], "outcome": o, "desc": {k: v for k, v in desc.items() if k not in ("params", "tables")}}
    else:
        desc, realised = pipeline.model_from_case(case)
        ref = Ref(desc)
        # mechanism class of the generated model: is it inside the "supported" scope, and if
        # not, why (the reference model's screening, never the seed)?
        ok_s, reasons = ref.supported(ref.solve(desc["params"]))
        # one primary reason (priority order), so that the key does not depend on which
        # combination of screening reasons a random model happens to have
        rs = {r.split(":", 1)[1] for r in reasons}
        prim = next((x for x in ("empty_space", "transition_into_excluded_or_out_of_range", "state_without_feasible_choice",
                                 "nan_at_feasible_choice", "nonfinite_value") if x in rs), "other")
        cls = "supported" if ok_s else "unsupported:" + prim
        add("generated_" + ("supported" if ok_s else "unsupported"))
        o = run_accept(desc, res, add, "generated_" + cls, rng, init=gen.gen_initial_states(rng, ref, 6, out_of_range=0.0))
        if o == "violation" and not ok_s:
            # exception type and frame depend on how many agents are affected: key by class + stage
            v = res["violations"][-1]
            stage = v["key"].split("|stage=")[1].split("|")[0]
            v["key"] = f"accepted_but_fails|feature=generated_{cls}|stage={stage}"
        res["sig"] = f"acceptgen:{dsl.shape_signature(desc)}"
        res["distinct"] = 1
        res["sample"] = {"kind": "accept_generated", "signature": dsl.shape_signature(desc), "outcome": o}
    res["features"] = {kind: True}
    res["status"] = "violated" if res["violations"] else "held"
    return res


def aggregate(results, tier):
    d = sum(r.get("distinct", 0) for r in results if r.get("status") in ("held", "violated"))
    outcomes = {}
    for r in results:
        outcomes.update(r.get("outcome", {}))
    return {"distinct_nontrivial": int(d), "evaluations": int(d), "lattice_outcomes": outcomes,
            "exhaustive_subspaces": {"single injections and all pairs of the 22 rule violations on the template model": "22 + 231 sets"}}
