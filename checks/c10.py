"""C10 - equivalent model specifications yield equal solutions (metamorphic monitor)."""
import re

import numpy as np

ID = "C10"
LEVEL = "exploration"
RULE = (
    "cases = generated supported base models x rewritings: (i) permuted declaration order of states, choices "
    "and functions; (ii) consistent renaming of all variables and functions (keeping next_, _constraint, "
    "_filter, utility); (iii) an added always-true constraint (parameter-free or with a parameter); (iv) an "
    "added always-true filter on a discrete state/choice pair (moves variables from the dense to the "
    "restricted code path); (v) the same discrete restriction written as a filter and as a constraint. Both "
    "specifications are solved by the real code and compared state by state through the reference's layout "
    "map (tol 1e-9); in (v) states that vanish from the filtered space must be -inf in the constrained one. "
    "Each lcm solution is additionally compared with the reference. non-trivial = rewriting changes the "
    "array layout or the code path; distinct = (shape signature, params, rewriting)."
)
ASSUMPTIONS = ["reference layout map identifies states across the two specifications"]
BATCH = {"quick": 3, "thorough": 6}
TIMEOUT = {"quick": 1500, "thorough": 7200}
FLOORS = {"quick": {"pairs_compared": 90, "states_compared": 10000, "rewrite_permute": 15, "rewrite_rename": 15, "rewrite_true_constraint": 15, "rewrite_true_filter": 10, "rewrite_filter_as_constraint": 10},
          "thorough": {"pairs_compared": 1200, "states_compared": 150000, "rewrite_permute": 200, "rewrite_rename": 200, "rewrite_true_constraint": 200, "rewrite_true_filter": 120, "rewrite_filter_as_constraint": 120}}

RESERVED = {"utility", "_period", "xp"}


def plan(tier, seed):
    n = 45 if tier == "quick" else 500
    return [{"index": i, "seed": [seed, 101, i], "cfg": "quick" if tier == "quick" else "thorough",
             "cfg_over": {"max_T": 3, "max_cells": 15000}, "force": {"filters": i % 3 != 2, "excluded_states": i % 3 == 0, "two_stochastic": i % 3 == 1},
             "env": {"VERIF_X64": "1"}} for i in range(n)]


def rename_desc(desc, rng):
    """Consistent renaming of variables and functions."""
    svars = [s for s, _ in desc["states"]] + [c for c, _ in desc["choices"]]
    fnames = [n for n, _, _ in desc["functions"]]
    mp = {}
    pool = [f"v{chr(ord('a') + i)}{int(rng.integers(10, 99))}" for i in range(len(svars))]
    for v, nv in zip(svars, pool):
        mp[v] = nv
    j = 0
    for n in fnames:
        if n == "utility":
            continue
        if n.startswith("next_"):
            mp[n] = "next_" + mp[n[len("next_"):]]
        elif n.endswith("_constraint"):
            mp[n] = f"q{j}x_constraint"
            j += 1
        elif n.endswith("_filter"):
            mp[n] = f"q{j}x_filter"
            j += 1
        else:
            mp[n] = f"helper{j}q"
            j += 1

    pat = re.compile(r"\b(" + "|".join(re.escape(k) for k in sorted(mp, key=len, reverse=True)) + r")\b")
    sub = lambda s: pat.sub(lambda m: mp[m.group(1)], s)  # noqa: E731
    d = dict(desc)
    d["states"] = [[mp[s], sp] for s, sp in desc["states"]]
    d["choices"] = [[mp[c], sp] for c, sp in desc["choices"]]
    d["functions"] = [[mp.get(n, n), [mp.get(a, a) for a in args], sub(expr)] for n, args, expr in desc["functions"]]
    d["stochastic"] = [mp[n] for n in desc.get("stochastic", [])]
    p = {}
    for k, v in desc["params"].items():
        if k == "shocks":
            p[k] = {mp[s]: a for s, a in v.items()}
        else:
            p[mp.get(k, k)] = v
    d["params"] = p
    if desc.get("scalar_functions"):
        d["scalar_functions"] = [mp.get(n, n) for n in desc["scalar_functions"]]
    if desc.get("frozen_params"):
        d["frozen_params"] = [[mp.get(a, a), b] for a, b in desc["frozen_params"]]
    return d, mp


class LayoutMismatch(Exception):
    pass


def run_case(case):
    from vlib import bootstrap, dsl, pipeline
    from vlib.refmodel import Ref, maxdev

    rng = pipeline.case_rng(case, 5)
    desc, realised = pipeline.model_from_case(case)
    ref = Ref(desc)
    params = desc["params"]
    sol = ref.solve(params)
    ok, reasons = ref.supported(sol)
    if not ok:
        return pipeline.screened_result(desc, realised, reasons)
    res = {"counters": {}, "maxima": {}, "violations": [], "features": {}, "nontrivial": False}
    cnt = res["counters"]
    tol = bootstrap.TOL

    def add(k, n=1):
        cnt[k] = cnt.get(k, 0) + int(n)

    built = {}

    def lcm_full(d, model=None):
        """Solve `d` with the real code; return list of full arrays keyed by sorted state names."""
        r = Ref(d)
        m = dsl.build_lcm_model(d) if model is None else model
        built["last"] = m
        f, _ = pipeline.get_lcm_function(m, "solve")
        out = pipeline.to_np_list(f(dsl.lcm_params(d["params"])))
        fulls = []
        for t in range(r.T):
            if out[t].shape != r.lcm_shape(t):
                raise LayoutMismatch(f"period {t}: value array has shape {out[t].shape}, the layout contract gives {r.lcm_shape(t)} for declared states {[s_ for s_, _ in d['states']]}")
            fulls.append(r.from_lcm_layout(out[t], t))
        return r, fulls

    def canon(r, full, names):
        """Transpose full array (axes r.state_order) to the order `names`."""
        return np.transpose(full, [r.state_order.index(n) for n in names])

    try:
        rb, base = lcm_full(desc)
        m_base = built["last"]
    except LayoutMismatch as e:
        res["violations"].append({"key": "layout_contract", "what": f"base specification: {e}"})
        res["status"] = "violated"
        return res
    except Exception as e:  # noqa: BLE001
        res["violations"].append({"key": pipeline.exc_key(e, "solve_base"), "what": pipeline.exc_text(e)})
        res["status"] = "violated"
        return res
    names0 = sorted(ref.states)
    base_c = [canon(rb, base[t], names0) for t in range(ref.T)]
    ref_c = [canon(ref, np.where(np.broadcast_to((ref.feas_state(t).reshape(ref.feas_state(t).shape + (1,) * (len(ref.sshape) - ref.feas_state(t).ndim)) if ref.feas_state(t) is not None else True), ref.sshape), sol["V"][t], np.nan), names0) for t in range(ref.T)]

    def compare(name, d2, back=None, vanish_is_neginf=False, model=None):
        """Solve d2 and compare with the base solution state by state."""
        add("rewrite_" + name)
        try:
            r2, full2 = lcm_full(d2, model=model)
        except LayoutMismatch as e:
            res["violations"].append({"key": "layout_contract", "what": f"rewriting {name}: {e}"})
            return
        except Exception as e:  # noqa: BLE001
            res["violations"].append({"key": pipeline.exc_key(e, "solve_" + name), "what": pipeline.exc_text(e) + f" (rewriting {name})"})
            return
        names2 = names0 if back is None else [back[n] for n in names0]
        add("pairs_compared")
        for t in range(ref.T):
            a = base_c[t]
            b = canon(r2, full2[t], names2)
            both = ~np.isnan(a) & ~np.isnan(b)
            add("states_compared", int(both.sum()))
            with np.errstate(all="ignore"):
                okc = ((np.abs(a - b) <= tol * (1 + np.abs(a))) & np.isfinite(a) & np.isfinite(b)) | (a == b)
            if np.any(both & ~okc):
                i0 = tuple(int(x) for x in np.argwhere(both & ~okc)[0])
                res["violations"].append({"key": f"rewriting_changes_solution:{name}", "what": f"rewriting '{name}': period {t}, state {dict(zip(names0, i0))}: {a[i0]!r} (base) vs {b[i0]!r} (rewritten); {int((both & ~okc).sum())} states differ"})
                return
            if vanish_is_neginf:
                van = np.isnan(a) & ~np.isnan(b)
                if np.any(van & ~np.isneginf(b)):
                    res["violations"].append({"key": f"vanished_state_not_neginf:{name}", "what": f"rewriting '{name}': period {t}: a state excluded by the filter has a finite value {b[van & ~np.isneginf(b)][0]!r} when the restriction is a constraint"})
                    return
                add("vanished_states_checked", int(van.sum()))
            else:
                if np.any(np.isnan(a) != np.isnan(b)):
                    res["violations"].append({"key": f"space_changed:{name}", "what": f"rewriting '{name}': period {t}: set of states in the space changed"})
                    return

    # base vs reference (so that an error common to both specifications is seen, too)
    for t in range(ref.T):
        both = ~np.isnan(base_c[t]) & ~np.isnan(ref_c[t])
        if np.any(np.isnan(base_c[t]) != np.isnan(ref_c[t])) or maxdev(base_c[t][both], ref_c[t][both]) > tol:
            res["violations"].append({"key": "base_differs_from_reference", "what": f"period {t}: base specification differs from the reference model"})
            break
    # (i) permutation
    d1 = dict(desc)
    d1["states"] = [desc["states"][i] for i in rng.permutation(len(desc["states"]))]
    d1["choices"] = [desc["choices"][i] for i in rng.permutation(len(desc["choices"]))]
    d1["functions"] = [desc["functions"][i] for i in rng.permutation(len(desc["functions"]))]
    compare("permute", d1)
    # (i') the same permutation written with the base model's OWN grid and function objects
    # (a user re-orders the dicts of an existing Model): equal-by-value models that differ only in
    # declaration order are different specifications for the layout contract
    try:
        import lcm as _lcm

        m_perm = _lcm.Model(n_periods=m_base.n_periods,
                            functions={n: m_base.functions[n] for n, _, _ in d1["functions"]},
                            states={k: m_base.states[k] for k, _ in d1["states"]},
                            choices={k: m_base.choices[k] for k, _ in d1["choices"]})
    except Exception:  # noqa: BLE001
        m_perm = None
    if m_perm is not None:
        compare("permute_same_objects", d1, model=m_perm)
    # (ii) renaming
    d2, mp = rename_desc(desc, rng)
    compare("rename", d2, back=mp)
    # (iii) always-true constraint
    allv = [s for s, _ in desc["states"]] + [c for c, _ in desc["choices"]]
    v = str(rng.choice(allv))
    d3 = dict(desc)
    if rng.random() < 0.5:
        d3["functions"] = desc["functions"] + [["always_constraint", [v], f"{v} >= -1e9"]]
        d3["params"] = {**params, "always_constraint": {}}
    else:
        d3["functions"] = desc["functions"] + [["always_constraint", [v, "slackp"], f"{v} + slackp >= -1e9"]]
        d3["params"] = {**params, "always_constraint": {"slackp": 0.25}}
    compare("true_constraint", d3)
    # (iv) always-true filter on a discrete state/choice pair
    dS = [s for s, sp in desc["states"] if sp["kind"] == "disc"]
    dC = [c for c, sp in desc["choices"] if sp["kind"] == "disc"]
    if dS:
        s = str(rng.choice(dS))
        d4 = dict(desc)
        if dC:
            c = str(rng.choice(dC))
            d4["functions"] = desc["functions"] + [["true_filter", [s, c], f"xp.logical_or({s} >= 0, {c} >= 0)"]]
        else:
            d4["functions"] = desc["functions"] + [["true_filter", [s], f"{s} >= 0"]]
        d4["params"] = {**params, "true_filter": {}}
        compare("true_filter", d4)
    # (v) filter <-> constraint
    filt = [f for f in desc["functions"] if f[0].endswith("_filter")]
    if filt:
        ren = {f[0]: f[0][: -len("_filter")] + "_asc_constraint" for f in filt}
        d5 = dict(desc)
        d5["functions"] = [[ren.get(n, n), a, e] for n, a, e in desc["functions"]]
        d5["params"] = {ren.get(k, k): v for k, v in params.items()}
        if desc.get("scalar_functions"):
            d5["scalar_functions"] = [ren.get(n, n) for n in desc["scalar_functions"]]
        compare("filter_as_constraint", d5, vanish_is_neginf=True)
    res["features"] = {**{k: bool(v) for k, v in realised.items()}, "has_filter": bool(filt)}
    res["sig"] = f"{dsl.shape_signature(desc)}#{pipeline.param_hash(params)}"
    res["nontrivial"] = bool(cnt.get("pairs_compared", 0) >= 2)
    res["sample"] = {"base": {k: v for k, v in desc.items() if k not in ("tables", "params")}, "renaming": mp,
                     "rewritings": [k[len("rewrite_"):] for k in cnt if k.startswith("rewrite_")]}
    res["status"] = "violated" if res["violations"] else "held"
    return res
