"""C03 - simulated states follow the model's law of motion."""
import numpy as np

ID = "C03"
LEVEL = "exploration"
RULE = (
    "cases = generated supported models (period-dependent and parameterised transitions, stochastic "
    "transitions with shuffled dependency order incl. _period, transition arrays replaced by arrays "
    "with row-specific 1-2 label supports) x agents x seeds; the real simulate function runs and for "
    "every in-scope (agent, t->t+1) pair the deterministic next state is recomputed by the reference "
    "from the row's reported states/choices/period/params (integers exact, floats 1e-11) and every "
    "stochastic next state must be a label with positive probability in the agent's row; period-0 "
    "columns must equal the supplied initial states. non-trivial = >= 1 transition compared and T>=2."
)
ASSUMPTIONS = ["numpy evaluation of the user's transition functions is trusted", "rows out of scope (left the space) are not judged"]
BATCH = {"quick": 3, "thorough": 6}
TIMEOUT = {"quick": 1500, "thorough": 7200}
FLOORS = {
    "quick": {"c03_transitions_compared": 1500, "c03_stochastic_draws": 600, "models_simulated": 35},
    "thorough": {"c03_transitions_compared": 50000, "c03_stochastic_draws": 30000, "models_simulated": 400},
}
NEEDED_FEATURES = ["stochastic", "stoch_multi_dep", "period_transition", "aux_params", "filters", "stoch_period_dep"]


def plan(tier, seed):
    n = 100 if tier == "quick" else 1200
    cases = []
    for i in range(n):
        force = {"period_transition": i % 2 == 0, "stochastic": i % 3 != 2, "stoch_multi_dep": i % 3 == 0}
        cases.append({"index": i, "seed": [seed, 31, i], "cfg": "quick" if tier == "quick" else "thorough",
                      "cfg_over": {"max_T": 4 if tier == "quick" else 6}, "force": force,
                      "force_T2": True, "vf": ["ref", "random"][i % 2],
                      "agents": 32 if tier == "quick" else 256, "env": {"VERIF_X64": "1"}})
    # large panels of an odd size (any batching over agents is exercised)
    for i in range(2 if tier == "quick" else 10):
        cases.append({"index": 4 * i, "seed": [seed, 33, i], "cfg": "quick", "cfg_over": {"max_T": 3, "min_T": 2, "max_cells": 3000},
                      "force": {"stochastic": True, "period_transition": False, "two_stochastic": False, "poison": False}, "force_T2": True, "vf": "ref",
                      "agents": [12345, 20321][i % 2], "env": {"VERIF_X64": "1"}})
    # many categories + labels given in a narrow integer dtype (pandas categorical codes are int8)
    for i in range(6 if tier == "quick" else 60):
        cases.append({"index": i, "seed": [seed, 32, i], "template": "many_categories", "cfg": "quick", "force_T2": True, "vf": "ref",
                      "init_dtype": ["int8", "uint8", "int16"][i % 3], "agents": 200 if tier == "quick" else 600, "env": {"VERIF_X64": "1"}})
    return cases


def run_case(case):
    from vlib import dsl, gen, pipeline, simcheck
    from vlib.refmodel import Ref

    rng = pipeline.case_rng(case, 5)
    desc, realised = pipeline.model_from_case(case)
    if case["index"] % 6 == 4 and "desc" not in case and not case.get("template") and desc["states"]:
        # a state with the legal name 'value' (asset value, house value): the reported state column
        # of that name must still be the state (C03 speaks about the states, whatever they are called)
        sn = [s_ for s_, _ in desc["states"]]
        desc = pipeline.rename_variables(desc, {sn[int(rng.integers(0, len(sn)))]: "value"})
        pipeline.LAST["desc"] = desc
        realised = {**realised, "state_named_value": True}
    ref = Ref(desc)
    params = desc["params"]
    if ref.stoch:
        params = simcheck.row_specific_shocks(rng, ref, params)
        desc = {**desc, "params": params}
    refsol = ref.solve(params)
    ok, reasons = ref.supported(refsol)
    if not ok:
        return pipeline.screened_result(desc, realised, reasons)
    res = {"counters": {}, "maxima": {}, "violations": [], "features": {}, "nontrivial": False}
    N = case["agents"]
    init = gen.gen_initial_states(rng, ref, N, int_cont=0.4 if case["index"] % 3 == 0 else 0.0)
    if case.get("init_dtype"):
        import numpy as _np

        init = {k: (_np.asarray(v).astype(case["init_dtype"]) if ref.is_disc(k) else v) for k, v in init.items()}
        res["counters"]["narrow_int_initial_state_panels"] = 1
    vf = simcheck.vf_arrays(ref, params, case["vf"], rng, refsol=refsol)
    try:
        model = dsl.build_lcm_model(desc)
        fsim, _ = pipeline.get_lcm_function(model, "simulate", jit=(case["index"] % 4 != 3))
        df = simcheck.simulate_once(fsim, params, init, vf, seed=int(rng.integers(0, 2**31 - 1)))
    except Exception as e:  # noqa: BLE001
        res["violations"].append({"key": pipeline.exc_key(e, "simulate"), "what": pipeline.exc_text(e)})
        res["status"] = "violated"
        return res
    j = simcheck.judge_panel(ref, params, df, init, vf, judge_c02=False)
    res["violations"] += j["C03"]
    if j["C13"] and not j["counters"].get("rows_total"):
        res["violations"] += [{"key": "panel_unusable:" + v["key"], "what": v["what"]} for v in j["C13"]]
    res["counters"] = {**res["counters"], **dict(j["counters"])}
    res["counters"]["models_simulated"] = 1
    res["status"] = "violated" if res["violations"] else "held"
    f = {k: bool(v) for k, v in realised.items()}
    f["stoch_period_dep"] = any("_period" in ref.fargs[n] for n in ref.stoch)
    f["vf_" + case["vf"]] = True
    res["features"] = f
    res["sig"] = f"{dsl.shape_signature(desc)}#{pipeline.param_hash(params)}"
    res["nontrivial"] = bool(ref.T >= 2 and (j["counters"].get("c03_transitions_compared", 0) + j["counters"].get("c03_stochastic_draws", 0)) > 0)
    res["sample"] = {"desc": {k: v for k, v in desc.items() if k not in ("tables", "params")}, "agents": N,
                     "transitions_compared": j["counters"].get("c03_transitions_compared", 0),
                     "stochastic_draws": j["counters"].get("c03_stochastic_draws", 0)}
    return res


def aggregate(results, tier):
    inc, feats = [], {}
    for r in results:
        if r.get("status") in ("held", "violated"):
            for k, v in r.get("features", {}).items():
                if v:
                    feats[k] = feats.get(k, 0) + 1
    for k in NEEDED_FEATURES:
        if feats.get(k, 0) == 0:
            inc.append(f"needed feature never realised by a judged case: {k}")
    return {"inconclusive": inc}
