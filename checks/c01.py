"""C01 - solve() returns the exact backward-induction solution on the grid.

Oracle: independent numpy reference model (vlib.refmodel) compared entry by entry with
the arrays returned by the real generated solve function, for generated models.
"""
import numpy as np

ID = "C01"
LEVEL = "exploration"
RULE = (
    "cases = seeded random model descriptors (feature-first generator, DESIGN 4.2) that pass "
    "the reference model's 'supported model' screening; each is solved by the real generated "
    "solve function for 2 parameter sets (same function object), 1/3 also with jit=False, and "
    "every entry of every period is compared with the numpy reference (tol 1e-9 x64 / 1e-3 f32). "
    "non-trivial = (T>=2 or a binding constraint/filter) and non-constant values; distinct = "
    "distinct (shape signature, parameter hash)."
)
ASSUMPTIONS = [
    "user functions are evaluated twice (jax.numpy for lcm, numpy for the reference); numpy float64 is trusted",
    "jax.util compatibility shim (harness side) supplies safe_zip/unzip2 removed from JAX 0.11",
    "models are small (<= ~2.5e5 state-choice cells): bounded by XLA compile time",
]
BATCH = {"quick": 4, "thorough": 8}
TIMEOUT = {"quick": 1500, "thorough": 7200}
FLOORS = {
    "quick": {"entries_compared": 2000, "models_compared": 40, "jit_false_models": 8},
    "thorough": {"entries_compared": 50000, "models_compared": 400, "jit_false_models": 50},
}
NEEDED_FEATURES = [
    "filters", "mixed_discrete", "two_cont_choices", "two_cont_states", "stochastic",
    "stoch_multi_dep", "period_transition", "period_utility", "period_filter",
    "period_constraint", "leave_above", "leave_below", "log_grid", "aux_params",
    "constraint_params", "poison", "excluded_states", "two_stochastic", "horizon_ge_11", "axis_ge_150", "three_cont_states", "int_utility", "stateless",
]


def plan(tier, seed):
    n = 150 if tier == "quick" else 1800
    cfg = "quick" if tier == "quick" else "thorough"
    cases = []
    for i in range(n):
        cases.append({"kind": "generic", "index": i, "seed": [seed, 1, i], "cfg": cfg,
                      "jit_false": i % 3 == 0, "checkify": (i % 4 == 1) if tier == "thorough" else (i % 8 == 5),
                      "env": {"VERIF_X64": "1"}})
    # long horizons (>= 11 periods) on tiny models: list order / indexing beyond one digit
    for i in range(6 if tier == "quick" else 60):
        cases.append({"kind": "generic", "index": i, "seed": [seed, 4, i], "cfg": "quick", "long_horizon": True,
                      "cfg_over": {"min_T": 11, "max_T": 13, "max_cells": 600, "max_states": 2, "max_choices": 2, "max_cont_state_pts": 4, "max_cont_choice_pts": 4},
                      "force": {"period_utility": True, "two_stochastic": False, "two_cont_states": False, "two_cont_choices": False},
                      "jit_false": False, "env": {"VERIF_X64": "1"}})
    # long axes (150-1200 grid points on a continuous state): coordinates, clipping and the
    # interpolation corners far away from the small index range the other cases live in
    for i in range(10 if tier == "quick" else 150):
        cases.append({"kind": "generic", "index": i, "seed": [seed, 5, i], "cfg": "quick", "long_axis": True,
                      "cfg_over": {"min_cont_state_pts": 150, "max_cont_state_pts": 1200, "max_cont_choice_pts": 40,
                                   "max_cells": 600000, "max_T": 3, "max_states": 2, "max_choices": 2},
                      "force": {"two_cont_states": False, "two_stochastic": False},
                      "jit_false": i % 5 == 0, "env": {"VERIF_X64": "1"}})
    # long continuous CHOICE axes (257..700 points: beyond any power-of-two block size; the maximum
    # over the choice grid must still be the maximum over exactly the grid points)
    for i in range(8 if tier == "quick" else 80):
        cases.append({"kind": "generic", "index": i, "seed": [seed, 15, i], "cfg": "quick", "long_choice_axis": True,
                      "cfg_over": {"min_cont_choice_pts": 257, "max_cont_choice_pts": 700, "max_cont_state_pts": 7,
                                   "max_cells": 600000, "max_T": 3, "max_states": 2, "max_choices": 2, "n_cC": 1},
                      "force": {"two_cont_states": False, "two_stochastic": False},
                      "jit_false": i % 4 == 0, "env": {"VERIF_X64": "1"}})
    # three continuous states of pairwise different sizes (rank-3 interpolation)
    for i in range(6 if tier == "quick" else 80):
        cases.append({"kind": "generic", "index": i, "seed": [seed, 6, i], "cfg": "quick", "three_cont": True,
                      "cfg_over": {"n_cS": 3, "max_states": 3 + (i % 2), "max_choices": 2, "max_cont_state_pts": 6, "max_cont_choice_pts": 6,
                                   "max_cells": 60000, "max_T": 3},
                      "force": {"two_stochastic": False, "mixed_discrete": False},
                      "jit_false": False, "env": {"VERIF_X64": "1"}})
    # utility computed in integer arithmetic (integer dtype meets the float discount factor)
    for i in range(8 if tier == "quick" else 80):
        cases.append({"kind": "generic", "template": "int_utility", "index": 1 + i, "seed": [seed, 8, i], "cfg": "quick",
                      "jit_false": i % 4 == 0, "env": {"VERIF_X64": "1" if i % 4 else "0"}})
    # the same models in other units: utility multiplied by 1e-30 ... 1e290 (finite, legitimate
    # magnitudes at which tolerances relative to 1 + |x| see nothing unless the result is rescaled)
    for i in range(12 if tier == "quick" else 150):
        cases.append({"kind": "generic", "index": 2 * i, "seed": [seed, 10, i], "cfg": cfg, "unit": [1e-14, 1e290, 1e-30, 1e200, 1e-8, 1e100][i % 6],
                      "force": {"poison": False}, "jit_false": False, "env": {"VERIF_X64": "1"}})
    # hundreds of feasible combinations of filter-restricted states (and many categories)
    for i in range(4 if tier == "quick" else 40):
        cases.append({"kind": "generic", "template": ["many_restricted", "many_categories"][i % 2], "index": 1 + 2 * i, "seed": [seed, 11, i], "cfg": "quick",
                      "jit_false": i % 4 == 0, "env": {"VERIF_X64": "1"}})
    # optimum outside the continuous choice grid (only grid points may be evaluated), grids of 3..700 points
    for i in range(8 if tier == "quick" else 80):
        cases.append({"kind": "generic", "template": "off_grid_optimum", "index": 1 + 2 * i, "seed": [seed, 16, i], "cfg": "quick",
                      "jit_false": i % 4 == 0, "env": {"VERIF_X64": "1"}})
    # models without state variables (scalar value arrays)
    for i in range(6 if tier == "quick" else 60):
        cases.append({"kind": "generic", "template": "stateless", "index": 1 + 2 * i, "seed": [seed, 9, i], "cfg": "quick",
                      "jit_false": i % 3 == 0, "env": {"VERIF_X64": "1"}})
    # values of -inf that are legitimately part of the solution (utility -inf in some states),
    # reached with positive probability from some rows and with probability exactly 0 from others
    for i in range(10 if tier == "quick" else 120):
        cases.append({"kind": "neg_inf_values", "index": i, "seed": [seed, 7, i], "cfg": cfg,
                      "jit_false": i % 3 == 0, "env": {"VERIF_X64": "1" if i % 5 else "0"}})
    m = 12 if tier == "quick" else 120
    for i in range(m):
        cases.append({"kind": "no_choice_last", "index": i, "seed": [seed, 2, i], "cfg": cfg,
                      "jit_false": i % 2 == 0, "env": {"VERIF_X64": "1"}})
    k = 10 if tier == "quick" else 200
    for i in range(k):
        cases.append({"kind": "generic", "index": i, "seed": [seed, 3, i], "cfg": "quick",
                      "jit_false": False, "env": {"VERIF_X64": "0"}})
    return cases


def _no_choice_last_desc(rng):
    """T=1 models in which some grid states have no feasible choice."""
    from vlib.gen import rnd

    nw = int(rng.integers(3, 9))
    nc = int(rng.integers(2, 8))
    w0 = rnd(rng, 0.5, 2.0)
    w1 = round(w0 + rnd(rng, 3, 10), 4)
    c0 = round(w0 + rnd(rng, 0.5, 2.5), 4)  # smallest consumption exceeds smallest wealth
    c1 = round(c0 + rnd(rng, 2, 8), 4)
    nd = int(rng.integers(2, 4))
    with_filter = bool(rng.random() < 0.5)
    fns = [
        ["utility", ["cons", "wealth", "work", "h", "dis"], "xp.log(cons) - dis * work + 0.1 * h * xp.sqrt(wealth)"],
        ["next_wealth", ["wealth", "cons"], "wealth - cons"],
        ["next_h", ["h"], "h"],
        ["budget_constraint", ["cons", "wealth"], "cons <= wealth"],
    ]
    params = {"beta": 0.9, "utility": {"dis": rnd(rng, 0.1, 1.0)}, "next_wealth": {}, "next_h": {}, "budget_constraint": {}}
    tables = {}
    if with_filter:
        tab = rng.random((nd, 2)) < 0.6
        tab[:, 0] |= ~tab.any(axis=1)
        tables["FT0"] = tab.tolist()
        fns.append(["a_filter", ["h", "work"], "FT0[h, work]"])
        params["a_filter"] = {}
    if rng.random() < 0.5:
        fns.append(["w_constraint", ["work", "h"], "work <= h"])
        params["w_constraint"] = {}
    order = rng.permutation(len(fns))
    desc = {
        "n_periods": 1,
        "states": [["wealth", {"kind": "lin", "start": w0, "stop": w1, "n": nw}], ["h", {"kind": "disc", "n": nd}]],
        "choices": [["cons", {"kind": "lin", "start": c0, "stop": c1, "n": nc}], ["work", {"kind": "disc", "n": 2}]],
        "functions": [fns[i] for i in order],
        "stochastic": [],
        "tables": tables,
        "params": params,
    }
    if rng.random() < 0.5:
        desc["states"].reverse()
    return desc


def _neg_inf_desc(rng):
    """Fully discrete models whose utility is -inf in a 'dead' state (all choices) and at a few
    single (state, choice) pairs; stochastic transitions with rows that reach the dead state
    with positive probability and rows that give it probability exactly 0."""
    from vlib.gen import rnd

    nh = int(rng.integers(3, 5))
    nk = int(rng.integers(2, 4))
    nd = int(rng.integers(2, 4))
    T = int(rng.integers(2, 5))
    dead = int(rng.integers(0, nh))
    UT = (rng.normal(size=(nh, nk, nd)) * 2).round(4)
    UT[dead, :, :] = -np.inf
    extra = rng.random((nh, nk, nd)) < 0.12
    extra[:, :, 0] = False  # every live state keeps a finite choice
    UT = np.where(extra, -np.inf, UT)
    P = rng.random((nh, nd, nh)) + 0.05
    zero_into_dead = rng.random((nh, nd)) < 0.6
    P[:, :, dead] = np.where(zero_into_dead, 0.0, P[:, :, dead])
    P[dead, :, :] = 0.0
    P[dead, :, dead] = 1.0  # absorbing
    P = P / P.sum(-1, keepdims=True)
    stoch = bool(rng.random() < 0.8)
    fns = [["utility", ["h", "k", "d"], "UT[h, k, d]"], ["next_k", ["k", "d"], f"(k + d) % {nk}"]]
    params = {"beta": rnd(rng, 0.5, 1.0), "utility": {}, "next_k": {}, "next_h": {}}
    tables = {"UT": UT.tolist()}
    if stoch:
        fns.append(["next_h", ["h", "d"], "None"])
        params["shocks"] = {"h": P.tolist()}
    else:
        NT = rng.integers(0, nh, (nh, nd))
        NT[dead, :] = dead
        tables["NT"] = NT.tolist()
        fns.append(["next_h", ["h", "d"], "NT[h, d]"])
    states = [["h", {"kind": "disc", "n": nh}], ["k", {"kind": "disc", "n": nk}]]
    if rng.random() < 0.5:
        states.reverse()
    return {"n_periods": T, "states": states, "choices": [["d", {"kind": "disc", "n": nd}]],
            "functions": [fns[i] for i in rng.permutation(len(fns))], "stochastic": ["next_h"] if stoch else [],
            "tables": tables, "params": params}


def _ccv_expected(ref, Q, t):
    """Reference conditional value array in lcm's layout (W2)."""
    nS = len(ref.state_order)
    names = ref.state_order + ref.choice_order
    cont_axes = tuple(i for i, v in enumerate(names) if v in ref.cont_choices)
    Qn = np.where(np.isnan(Q), -np.inf, Q)
    Qc = Qn.max(axis=cont_axes) if cont_axes else Qn
    rem = [v for v in names if v not in ref.cont_choices]
    target = (ref.sparse_states + ref.sparse_choices + ref.dense_disc_states
              + ref.dense_disc_choices + ref.cont_states)
    Qc = np.transpose(Qc, [rem.index(v) for v in target])
    m = ref.filter_mask(t)
    if m is not None:
        Qc = Qc[m]
    return Qc


def run_case(case):
    from vlib import bootstrap, dsl, gen, pipeline
    from vlib.refmodel import Ref, maxdev

    tol = bootstrap.TOL
    rng = pipeline.case_rng(case, 99)
    if "desc" in case:
        desc, realised = case["desc"], case.get("features", {})
    elif case["kind"] == "no_choice_last":
        desc, realised = _no_choice_last_desc(pipeline.case_rng(case)), {}
    elif case["kind"] == "neg_inf_values":
        desc, realised = _neg_inf_desc(pipeline.case_rng(case)), {}
    else:
        desc, realised = pipeline.model_from_case(case)
    ref = Ref(desc)
    sig = dsl.shape_signature(desc)
    res = {"counters": {}, "maxima": {}, "violations": [], "features": {}, "sig": None, "nontrivial": False}
    cnt = res["counters"]

    def add(k, n=1):
        cnt[k] = cnt.get(k, 0) + n

    allow_nc = case["kind"] == "no_choice_last"
    p1 = desc["params"]
    param_sets = [p1]
    if case["kind"] == "generic":
        p2 = gen.perturb_params(rng, p1, desc.get("frozen_params", ()))
        r = rng.random()
        p2["beta"] = 0.0 if r < 0.15 else (1.0 if r < 0.3 else (round(1 + 0.1 * rng.random(), 4) if r < 0.45 else p2["beta"]))
        param_sets.append(p2)
    refsols = []
    for p in param_sets:
        s = ref.solve(p, keep_q=case.get("jit_false", False))
        ok, reasons = ref.supported(s, allow_no_choice_last=allow_nc, allow_neg_inf_values=case["kind"] == "neg_inf_values")
        refsols.append((p, s, ok, reasons))
    if not refsols[0][2]:
        return pipeline.screened_result(desc, realised, refsols[0][3])
    refsols = [x for x in refsols if x[2]]

    # ------------------------------------------------------------ real code
    if case.get("index", 1) % 6 == 0 and case["kind"] == "generic":
        pipeline.run_sibling(desc, solve=True, counters=cnt)
    if case.get("index", 1) % 6 == 3 and case["kind"] == "generic":
        if pipeline.run_sibling(desc, solve=True, counters=cnt, mode="swap_grid_kinds"):
            add("sibling_with_swapped_grid_kinds")
    try:
        U = float(case.get("unit", 1.0))
        model = dsl.build_lcm_model(desc if U == 1.0 else pipeline.scaled_utility_desc(desc, U))
        if U != 1.0:
            add("unit_scaled_models")
        if case.get("index", 1) % 6 == 1:
            pipeline.run_alias_sibling(model, counters=cnt)
        f, _ = pipeline.get_lcm_function(model, "solve", jit=True)
    except Exception as e:  # noqa: BLE001
        res["violations"].append({"key": pipeline.exc_key(e, "build"), "what": pipeline.exc_text(e)})
        res["status"] = "violated"
        res["sample"] = {"desc": desc}
        return res
    nontrivial = False
    outs = []
    p_obj = None
    for p, s, _, _ in refsols:
        try:
            if case.get("index", 0) % 2 == 0:
                # ONE params mapping object, edited in place between the calls
                p_obj = dsl.lcm_params(p) if p_obj is None else pipeline.update_params_in_place(p_obj, dsl.lcm_params(p))
                if p_obj is not None and len(outs) >= 1:
                    add("calls_with_params_edited_in_place")
                out = pipeline.to_np_list(f(p_obj))
            else:
                out = pipeline.to_np_list(f(dsl.lcm_params(p)))
            if U != 1.0:
                out = [a_ / U for a_ in out]  # back to the reference's units
        except Exception as e:  # noqa: BLE001
            res["violations"].append({"key": pipeline.exc_key(e, "solve"), "what": pipeline.exc_text(e)})
            continue
        outs.append(out)
        if len(out) != ref.T:
            res["violations"].append({"key": "list_length", "what": f"{len(out)} arrays for {ref.T} periods"})
            continue
        add("models_compared")
        for t in range(ref.T):
            exp = ref.to_lcm_layout(s["V"][t], t)
            got = out[t]
            if got.shape != exp.shape:
                res["violations"].append({"key": "shape_mismatch", "what": f"period {t}: got {got.shape}, expected {exp.shape}"})
                continue
            add("entries_compared", int(exp.size))
            add("neg_inf_entries", int(np.isneginf(exp).sum()))
            d = maxdev(got, exp)
            res["maxima"]["max_rel_dev"] = max(res["maxima"].get("max_rel_dev", 0.0), d if np.isfinite(d) else 1e300)
            if d > tol:
                with np.errstate(all="ignore"):
                    okm = ((np.abs(got - exp) <= tol * (1 + np.abs(exp))) & np.isfinite(exp)) | (got == exp)
                bad = np.argwhere(~okm)
                if len(bad) == 0:  # cannot happen; keep the verdict, never crash the harness
                    bad = np.argwhere(np.ones(exp.shape, bool))
                i0 = tuple(int(x) for x in bad[0])
                res["violations"].append({
                    "key": "value_mismatch",
                    "what": f"period {t} entry {i0}: lcm={float(got[i0])!r} reference={float(exp[i0])!r}; {len(bad)}/{exp.size} entries differ (max rel dev {d:.3g})",
                    "detail": {"period": t, "index": i0, "n_bad": int(len(bad)), "beta": p["beta"]},
                })
            if exp.size > 1 and np.ptp(exp[np.isfinite(exp)]) > 0 if np.isfinite(exp).any() else False:
                if ref.T >= 2 or any(i["binding"] for i in s["info"]):
                    nontrivial = True
    # ---- the same params mapping edited in place in ONE nested leaf (beta untouched), same function
    if p_obj is not None and refsols and case["kind"] == "generic":
        try:
            import copy

            p3 = copy.deepcopy(refsols[-1][0])
            frozen = {tuple(x) for x in desc.get("frozen_params", ())}
            leaves = [(fn, pn) for fn, d in p3.items() if isinstance(d, dict) and fn != "shocks" for pn, v in d.items()
                      if isinstance(v, float) and (fn, pn) not in frozen]
            if leaves:
                fn, pn = leaves[int(rng.integers(0, len(leaves)))]
                p3[fn][pn] = round(p3[fn][pn] * 1.17 + 0.03, 4)
                s3 = ref.solve(p3)
                if ref.supported(s3, allow_no_choice_last=allow_nc)[0]:
                    p_obj[fn][pn] = dsl.lcm_params(p3)[fn][pn]  # nothing else is touched
                    out3 = [a_ / U for a_ in pipeline.to_np_list(f(p_obj))]
                    add("calls_with_one_nested_leaf_edited_in_place")
                    for t in range(min(len(out3), ref.T)):
                        exp = ref.to_lcm_layout(s3["V"][t], t)
                        if out3[t].shape != exp.shape or maxdev(out3[t], exp) > tol:
                            res["violations"].append({"key": "value_mismatch_after_in_place_edit", "what": f"params[{fn!r}][{pn!r}] edited in place on the mapping used for the previous call, same function object: period {t} differs from the reference for the edited parameters (max rel dev {maxdev(out3[t], exp) if out3[t].shape == exp.shape else float('nan'):.3g})"})
                            break
        except Exception as e:  # noqa: BLE001
            try:
                res["violations"].append({"key": pipeline.exc_key(e, "solve_after_in_place_edit"), "what": pipeline.exc_text(e)})
            except pipeline.HarnessError:
                add("in_place_edit_harness_skip")
    # ------------------------------------------------------------ jit=False + W2
    if case.get("jit_false") and refsols:
        p, s, _, _ = refsols[0]
        captured = []
        import lcm.solve_brute as sb

        orig = sb.solve_continuous_problem

        events = []  # W9 (advisory): event trace of the eager backward loop

        def wrapped(*a, **k):
            events.append(("cont", k.get("vf_arr")))
            r = orig(*a, **k)
            captured.append(r)
            return r

        import lcm.entry_point as ep

        orig_gsdp = getattr(ep, "get_solve_discrete_problem", None)

        def gsdp_w(*a, **k):
            calc = orig_gsdp(*a, **k)

            def calc_w(*aa, **kk):
                r = calc(*aa, **kk)
                events.append(("emax", r))
                return r

            return calc_w

        w2_available = hasattr(sb, "solve_continuous_problem")
        sb.solve_continuous_problem = wrapped
        if orig_gsdp is not None:
            ep.get_solve_discrete_problem = gsdp_w
        try:
            try:
                f2, _ = pipeline.get_lcm_function(model, "solve", jit=False)
            finally:
                if orig_gsdp is not None:
                    ep.get_solve_discrete_problem = orig_gsdp
            raw2 = f2(dsl.lcm_params(p))
            out2 = pipeline.to_np_list(raw2)
            if case.get("index", 0) % 2 == 1:
                # second call of the SAME non-jitted function object
                n_ev = len(events)
                out2b = pipeline.to_np_list(f2(dsl.lcm_params(p, leaf="np")))
                del events[n_ev:]
                del captured[len(out2):]
                add("jit_false_second_calls")
                if len(out2b) != len(out2) or any(a_.shape != b_.shape or maxdev(a_, b_) > tol for a_, b_ in zip(out2, out2b)):
                    res["violations"].append({"key": "second_call_differs", "what": f"second call of the same solve function (jit=False, same parameters) returns {len(out2b)} arrays; the first call returned {len(out2)} (or the values differ)"})
            # trace specification: (cont, emax) x T; the array entering step j is the array that
            # left step j-1 (None first); the returned list is the outputs in reverse order
            try:
                kinds = [e[0] for e in events]
                dev = []
                if kinds != ["cont", "emax"] * ref.T:
                    dev.append(f"w9_event_order: {kinds[:8]} is not (cont, emax) x {ref.T}")
                else:
                    if events[0][1] is not None:
                        dev.append("w9_last_period_gets_a_continuation_array")
                    for j in range(1, ref.T):
                        if events[2 * j][1] is not events[2 * j - 1][1]:
                            dev.append(f"w9_chain: step {j} does not continue from the array produced by step {j - 1}")
                    outs9 = [events[2 * j + 1][1] for j in range(ref.T)][::-1]
                    if len(raw2) != ref.T or any(a_ is not b_ for a_, b_ in zip(raw2, outs9)):
                        dev.append("w9_result_list: returned list is not the per-period outputs in chronological order")
                add("w9_traces_checked")
                add("w9_events_recorded", len(events))
                if dev:
                    add("w9_trace_deviations", len(dev))
                    res.setdefault("localisation", []).extend(dev[:4])
            except Exception:  # noqa: BLE001
                add("w9_trace_checker_error")
            add("jit_false_models")
            if outs and len(out2) == len(outs[0]):
                for t in range(len(out2)):
                    if out2[t].shape != outs[0][t].shape or maxdev(out2[t], outs[0][t]) > tol:
                        res["violations"].append({"key": "jit_nojit_diff", "what": f"period {t}: jit and non-jit results differ"})
            for t in range(min(len(out2), ref.T)):
                exp = ref.to_lcm_layout(s["V"][t], t)
                if out2[t].shape != exp.shape or maxdev(out2[t], exp) > tol:
                    res["violations"].append({"key": "value_mismatch_nojit", "what": f"period {t} (jit=False) differs from reference"})
            # W2: conditional value arrays (captured in reverse period order)
            if w2_available and len(captured) == ref.T:
                for j, arr in enumerate(captured):
                    t = ref.T - 1 - j
                    try:
                        arr = np.asarray(arr)
                    except Exception:  # noqa: BLE001 - tracers: not concrete
                        add("w2_traced")
                        continue
                    exp = _ccv_expected(ref, s["Q"][t], t)
                    add("w2_arrays_compared")
                    if arr.shape != exp.shape:
                        add("w2_shape_diff")
                    elif maxdev(arr, exp) > tol:
                        add("w2_value_diff")
                        res.setdefault("localisation", []).append(f"conditional value array of period {t} differs")
            else:
                add("w2_unavailable")
        except Exception as e:  # noqa: BLE001
            res["violations"].append({"key": pipeline.exc_key(e, "solve_nojit"), "what": pipeline.exc_text(e)})
        finally:
            sb.solve_continuous_problem = orig
    # ------------------------------------------------------------ checkify sanitizer
    if case.get("checkify") and refsols and not any(i["oob_any"] for i in refsols[0][1]["info"]):
        try:
            import jax
            from jax.experimental import checkify

            f3, _ = pipeline.get_lcm_function(model, "solve", jit=False)
            chk = jax.jit(checkify.checkify(f3, errors=checkify.index_checks))
            err, _ = chk(dsl.lcm_params(refsols[0][0]))
            add("checkify_runs")
            msg = err.get()
            if msg:
                res["violations"].append({"key": "checkify_index_oob", "what": str(msg)[:300]})
        except Exception as e:  # noqa: BLE001
            add("checkify_unavailable")
            res.setdefault("notes", []).append(pipeline.exc_text(e))
    res["status"] = "violated" if res["violations"] else "held"
    res["features"] = {k: bool(v) for k, v in realised.items()}
    res["features"]["kind_" + case["kind"]] = True
    res["features"]["x64_off"] = not bootstrap.X64
    res["features"]["horizon_ge_11"] = ref.T >= 11
    res["features"]["three_cont_states"] = sum(1 for _, sp in desc["states"] if sp["kind"] != "disc") >= 3
    res["features"]["axis_ge_150"] = any(sp["n"] >= 150 for _, sp in desc["states"])
    res["sig"] = f"{sig}#{pipeline.param_hash(p1)}"
    res["nontrivial"] = bool(nontrivial)
    if res["violations"]:
        res["sample"] = {"desc": desc}
    else:
        res["sample"] = {"desc": {k: v for k, v in desc.items() if k != "tables"}, "periods": ref.T,
                         "shapes": [list(ref.lcm_shape(t)) for t in range(ref.T)]}
    return res


def aggregate(results, tier):
    inc = []
    feats = {}
    for r in results:
        if r.get("status") in ("held", "violated"):
            for k, v in r.get("features", {}).items():
                if v:
                    feats[k] = feats.get(k, 0) + 1
    for k in NEEDED_FEATURES:
        if feats.get(k, 0) == 0:
            inc.append(f"quota'd feature never realised by a judged case: {k}")
    return {"inconclusive": inc}
