"""C09 - generated functions are pure: results depend only on the arguments of the call."""
import copy
import json
import os
import subprocess
import sys

import numpy as np

ID = "C09"
LEVEL = "exploration"
RULE = (
    "history checker: for a generated model, one solve and one solve_and_simulate function object receive a "
    "random call history (length 8-12 quick / 30 thorough) that repeats and interleaves 3 parameter sets, 2 "
    "initial-state batches, 2 seeds and 4 leaf types (python float, numpy scalar, 0-d numpy array, jax "
    "scalar); the oracle is a golden table args -> result produced by FRESH function objects in FRESH "
    "processes under PYTHONHASHSEED in {1, 1234} (quick) / {1, 7, 1234, 99991} (thorough) while the history "
    "runs under 0; every call must equal its golden entry (1e-12) and the golden tables must agree with each "
    "other; rebuilt functions in the same process must agree too; deep snapshots of model.functions / states / "
    "choices (identity of containers and functions, grid reprs) and of params (structure, leaf types, bytes) "
    "taken before and after every call must be equal. non-trivial = history with >= 2 distinct argument sets "
    "and >= 1 repeat; distinct = (shape signature, params)."
)
ASSUMPTIONS = ["golden processes run the same working tree; agreement across hash seeds is part of the property"]
BATCH = {"quick": 1, "thorough": 1}
TIMEOUT = {"quick": 2400, "thorough": 10800}
FLOORS = {"quick": {"history_calls": 80, "golden_processes": 20, "snapshots_compared": 160, "golden_entries": 40},
          "thorough": {"history_calls": 1000, "golden_processes": 120, "snapshots_compared": 2000, "golden_entries": 200}}


def plan(tier, seed):
    n = 12 if tier == "quick" else 72
    return [{"index": i, "seed": [seed, 91, i], "cfg": "quick", "cfg_over": {"max_T": 3, "max_cells": 6000, "max_states": 3, "max_choices": 3},
             "force": {"stochastic": i % 2 == 0, "two_stochastic": i % 4 == 0, "filters": i % 3 == 0, "aux_params": True},
             "hist_len": 9 if tier == "quick" else 30, "hash_seeds": [1, 3, 5, 1234] if tier == "quick" else [1, 3, 5, 7, 1234, 99991],
             "jit_false_solve": i % 4 == 3, "env": {"VERIF_X64": "1", "PYTHONHASHSEED": "0"}} for i in range(n)]


def snapshot_model(model):
    out = {"functions_id": id(model.functions), "states_id": id(model.states), "choices_id": id(model.choices),
           "functions": [(k, id(v), getattr(v, "__name__", None), tuple(sorted(vars(v).keys())) if hasattr(v, "__dict__") else None) for k, v in model.functions.items()],
           "states": [(k, id(v), repr(v)) for k, v in model.states.items()],
           "choices": [(k, id(v), repr(v)) for k, v in model.choices.items()],
           "n_periods": model.n_periods}
    return out


def snapshot_params(p):
    def leaf(x):
        a = np.asarray(x)
        return (type(x).__name__, str(a.dtype), a.shape, a.tobytes())

    out = []

    def walk(d, path):
        if isinstance(d, dict):
            out.append((path, "dict", id(d), tuple(d.keys())))
            for k, v in d.items():
                walk(v, path + (k,))
        else:
            out.append((path, leaf(d)))

    walk(p, ())
    return out


def run_case(case):
    from vlib import bootstrap, dsl, gen, golden, pipeline, simcheck
    from vlib.refmodel import Ref

    rng = pipeline.case_rng(case, 5)
    desc, realised = pipeline.model_from_case(case)
    ref = Ref(desc)
    params = desc["params"]
    sol = ref.solve(params)
    ok, reasons = ref.supported(sol)
    if not ok:
        return pipeline.screened_result(desc, realised, reasons)
    res = {"counters": {}, "maxima": {}, "violations": [], "features": {}, "nontrivial": False}
    cnt = res["counters"]

    def add(k, n=1):
        cnt[k] = cnt.get(k, 0) + int(n)

    psets = [params, gen.perturb_params(rng, params, desc.get("frozen_params", ())), gen.perturb_params(rng, params, desc.get("frozen_params", ()))]
    if ref.stoch:
        # differs from the base set ONLY in the transition arrays
        psets[2] = {**params, "shocks": gen.perturb_params(rng, params)["shocks"]}
    else:
        # differs from the base set only in one leaf
        psets[2] = {**params, "beta": round(params["beta"] * 0.83, 4)}
    if ref.stoch:
        # probabilities that are tiny but positive (1e-20): legitimate numbers in a transition array
        import copy

        for ps in psets:
            sh = copy.deepcopy(ps["shocks"])
            for s_, arr in sh.items():
                a_ = np.asarray(arr, dtype=float)
                flat = a_.reshape(-1, a_.shape[-1])
                r_ = int(rng.integers(0, flat.shape[0]))
                j_ = int(np.argmin(flat[r_]))
                flat[r_, j_] = max(flat[r_, j_], 1e-20) if flat[r_, j_] > 0 else 1e-20
                sh[s_] = flat.reshape(a_.shape).tolist()
            ps["shocks"] = sh
        add("tiny_probability_entries", len(psets))
    inits = [gen.gen_initial_states(rng, ref, 8), gen.gen_initial_states(rng, ref, 5)]
    seeds = [3, 77]
    sim_args = [{"params": psets[int(rng.integers(0, 3))], "init": {k: np.asarray(v).tolist() for k, v in inits[i % 2].items()}, "seed": seeds[(i // 2) % 2]} for i in range(3)]
    # arg sets 0 and 1 differ only in the minimally changed parameter set (same agents, same seed)
    sim_args[0] = {**sim_args[0], "params": psets[0]}
    sim_args[1] = {**sim_args[0], "params": psets[2]}
    # arg set 3 = arg set 0 with the continuous initial states given in SINGLE precision (a data set
    # loaded as float32): a legitimate call of its own, and the calls after it must be unaffected
    sim_args.append({**sim_args[0], "init_dtype": "float32"})
    jit_solve = not case.get("jit_false_solve")
    spec = {"desc": desc, "solve_args": psets, "sim_args": sim_args, "jit": jit_solve}
    rundir = os.path.join(bootstrap.VERIF, ".run", f"c09_{os.getpid()}_{case['index']}")
    os.makedirs(rundir, exist_ok=True)
    sp = os.path.join(rundir, "spec.json")
    with open(sp, "w") as fh:
        json.dump(spec, fh)
    procs = []
    for hs in case["hash_seeds"]:
        env = {**os.environ, "PYTHONHASHSEED": str(hs), "PYTHONPATH": bootstrap.VERIF}
        out = os.path.join(rundir, f"golden_{hs}.npz")
        procs.append((hs, out, subprocess.Popen([sys.executable, "-m", "vlib.golden", sp, out], cwd=bootstrap.VERIF, env=env,
                                                  stdout=subprocess.DEVNULL, stderr=subprocess.PIPE, text=True)))
    # ------------------------------------------------------------------ history on ONE object per target
    # "in the same or another process": the golden tables come from fresh processes that see
    # only this model; here other models (same names with other bodies, and the same grid
    # specifications with the other grid kind) are built and run first in THIS process
    pipeline.run_sibling(desc, solve=True, counters=cnt)
    if pipeline.run_sibling(desc, solve=True, counters=cnt, mode="swap_grid_kinds"):
        add("sibling_with_swapped_grid_kinds")
    model = dsl.build_lcm_model(desc)
    hist_out = {}
    try:
        m_before_build = snapshot_model(model)
        fsolve, _ = pipeline.get_lcm_function(model, "solve", jit=jit_solve)
        fsim, _ = pipeline.get_lcm_function(model, "solve_and_simulate")
        add("snapshots_compared")
        if snapshot_model(model) != m_before_build:
            res["violations"].append({"key": "model_modified", "what": "building the functions (get_lcm_function) modified the model object (functions/states/choices)"})
        leafs = ["float", "np", "np0d", "jax"]
        H = case["hist_len"]
        history = []
        for h in range(H):
            if rng.random() < 0.55:
                history.append(("solve", int(rng.integers(0, 3))))
            else:
                history.append(("sim", int(rng.integers(0, 3))))
        # guarantee repeats and interleaving
        history += [history[0], history[1 % len(history)], ("solve", 0), ("sim", 0), ("sim", 1), ("sim", 0), ("solve", 0), ("solve", 2), ("solve", 0),
                    ("sim", 3), ("sim", 0), ("sim", 1)]
        shared_p = None
        shared_ps = None
        for h, (kind, i) in enumerate(history):
            leaf = leafs[h % 4]
            m_before = snapshot_model(model)
            if kind == "solve":
                if h % 2 == 0:
                    # ONE params mapping object for the solve calls, edited in place between calls
                    shared_p = pipeline.update_params_in_place(shared_p, dsl.lcm_params(psets[i], leaf=leaf)) if shared_p is not None else dsl.lcm_params(psets[i], leaf=leaf)
                    p_in = shared_p
                    add("calls_with_params_edited_in_place")
                else:
                    p_in = dsl.lcm_params(psets[i], leaf=leaf)
                p_before = snapshot_params(p_in)
                r = fsolve(p_in)
                got = {f"solve{i}__t{t}": np.asarray(a, dtype=float) for t, a in enumerate(r)}
            else:
                a = sim_args[i]
                if h % 2 == 1:
                    shared_ps = pipeline.update_params_in_place(shared_ps, dsl.lcm_params(a["params"], leaf=leaf)) if shared_ps is not None else dsl.lcm_params(a["params"], leaf=leaf)
                    p_in = shared_ps
                    add("calls_with_params_edited_in_place")
                else:
                    p_in = dsl.lcm_params(a["params"], leaf=leaf)
                p_before = snapshot_params(p_in)
                import jax.numpy as jnp

                # the SAME mapping object is handed in on every call with this argument set
                # (a user keeps one dict of initial states and simulates repeatedly)
                if "_init_obj" not in a:
                    a["_init_obj"] = {k: jnp.asarray(v) for k, v in golden.typed_init(a).items()}
                init_in = a["_init_obj"]
                df = fsim(p_in, initial_states=init_in, seed=int(a["seed"]))
                got = golden.frame_to_arrays(df, f"sim{i}")
                add("snapshots_compared")
                ti = golden.typed_init(a)
                if sorted(init_in) != sorted(a["init"]) or any(
                        not np.array_equal(np.asarray(init_in[k]), ti[k]) for k in a["init"] if k in init_in):
                    res["violations"].append({"key": "initial_states_modified", "what": f"call {h} (sim, arg set {i}): the initial_states mapping passed in was modified by the call"})
                    a.pop("_init_obj")
            add("history_calls")
            add("snapshots_compared", 2)
            if snapshot_params(p_in) != p_before:
                res["violations"].append({"key": "params_modified", "what": f"call {h} ({kind}, arg set {i}, leaf type {leaf}): the params passed in were modified"})
            if snapshot_model(model) != m_before:
                res["violations"].append({"key": "model_modified", "what": f"call {h} ({kind}): the model object was modified (functions/states/choices)"})
            hist_out.setdefault((kind, i), []).append((h, leaf, got))
        # params objects made from the returned templates (the documented workflow): the template of
        # one build, filled in place, must not change when the template of ANOTHER build is filled
        try:
            _, tA = pipeline.get_lcm_function(model, "solve")
            _, tB = pipeline.get_lcm_function(model, "simulate")

            def _fill(t_, p_):
                for fn_, ps_ in p_.items():
                    if isinstance(ps_, dict) and fn_ != "shocks" and isinstance(t_.get(fn_), dict):
                        for k_, v_ in ps_.items():
                            t_[fn_][k_] = v_

            _fill(tA, psets[0])
            wantA = {fn_: dict(ps_) for fn_, ps_ in psets[0].items() if isinstance(ps_, dict) and fn_ != "shocks"}
            _fill(tB, psets[1])
            add("template_pairs_filled_in_place")
            diffA = [f"{fn_}.{k_}" for fn_, ps_ in wantA.items() for k_, v_ in ps_.items() if isinstance(tA.get(fn_), dict) and tA[fn_].get(k_) != v_]
            if diffA and any(psets[0][fn_.split('.')[0]][fn_.split('.')[1]] != psets[1][fn_.split('.')[0]][fn_.split('.')[1]] for fn_ in diffA):
                res["violations"].append({"key": "params_modified_by_another_build", "what": f"filling the template of a second build in place changed the already filled template (params) of the first build at {diffA[:4]}"})
        except Exception as e:  # noqa: BLE001
            try:
                res["violations"].append({"key": pipeline.exc_key(e, "template_pairs"), "what": pipeline.exc_text(e)})
            except pipeline.HarnessError:
                add("template_pairs_skipped")
        # value arrays are arguments too: the solve result is handed to the simulate target twice and
        # must still be usable (and unchanged) afterwards
        try:
            import jax.numpy as jnp

            fs_only, _ = pipeline.get_lcm_function(model, "simulate")
            sol_j = fsolve(dsl.lcm_params(psets[0]))
            keep = [np.asarray(a_) for a_ in sol_j]
            a0 = sim_args[0]
            st0 = {k: jnp.asarray(v) for k, v in golden.typed_init(a0).items()}
            vf_list = list(sol_j)  # one list object for both calls
            ids_before = [id(a_) for a_ in vf_list]
            d1 = fs_only(dsl.lcm_params(psets[0]), initial_states=st0, vf_arr_list=vf_list, seed=4)
            if len(vf_list) != len(ids_before) or [id(a_) for a_ in vf_list] != ids_before:
                res["violations"].append({"key": "value_array_list_modified", "what": f"the list passed as vf_arr_list was modified by the call ({len(ids_before)} arrays before, {len(vf_list)} entries after, {sum(a_ is None for a_ in vf_list)} of them None)"})
                vf_list = list(sol_j)
            d2 = fs_only(dsl.lcm_params(psets[0]), initial_states=st0, vf_arr_list=vf_list, seed=4)
            after = [np.asarray(a_) for a_ in sol_j]
            add("value_array_reuse_sequences")
            if simcheck.frames_equal(d1, d2, tol=1e-12) or any(not np.array_equal(x_, y_, equal_nan=True) for x_, y_ in zip(keep, after)):
                res["violations"].append({"key": "value_arrays_modified", "what": "two simulate calls with the same value arrays differ, or the arrays passed as vf_arr_list were modified"})
        except Exception as e:  # noqa: BLE001
            res["violations"].append({"key": f"value_arrays_unusable_after_simulate|{type(e).__name__}", "what": f"value arrays passed as vf_arr_list cannot be used again after the call: {pipeline.exc_text(e)}"})
        # rebuild in the same process
        f2, _ = pipeline.get_lcm_function(dsl.build_lcm_model(desc), "solve", jit=jit_solve)
        r2 = f2(dsl.lcm_params(psets[1]))
        hist_out.setdefault(("solve", 1), []).append((-1, "rebuilt", {f"solve1__t{t}": np.asarray(a, dtype=float) for t, a in enumerate(r2)}))
        add("history_calls")
    except Exception as e:  # noqa: BLE001
        for _, _, p in procs:
            p.kill()
        res["violations"].append({"key": pipeline.exc_key(e, "history"), "what": pipeline.exc_text(e)})
        res["status"] = "violated"
        return res
    # ------------------------------------------------------------------ golden tables
    goldens = {}
    for hs, out, p in procs:
        try:
            _, err = p.communicate(timeout=1200)
        except subprocess.TimeoutExpired:
            p.kill()
            return {"status": "inconclusive", "counters": cnt, "violations": [], "nontrivial": False, "sig": None, "note": "golden timeout"}
        if p.returncode != 0 or not os.path.exists(out):
            tail = (err or "")[-600:]
            if "/lcm/" in tail:
                res["violations"].append({"key": f"golden_process_failed", "what": f"fresh process with PYTHONHASHSEED={hs} failed: {tail[-300:]}"})
            else:
                raise RuntimeError("golden process failed: " + tail)
            continue
        goldens[hs] = dict(np.load(out))
        add("golden_processes")

    def same(a, b, tol=1e-12):
        if a.shape != b.shape:
            return False
        with np.errstate(all="ignore"):
            return bool(np.all(((np.abs(a - b) <= tol * (1 + np.abs(b))) & np.isfinite(a) & np.isfinite(b)) | (a == b) | (np.isnan(a) & np.isnan(b))))

    hss = sorted(goldens)
    for hs in hss[1:]:
        for k in goldens[hss[0]]:
            add("golden_entries")
            if k not in goldens[hs] or not same(goldens[hs][k], goldens[hss[0]][k]):
                res["violations"].append({"key": "differs_across_hash_seeds", "what": f"entry {k}: fresh processes with PYTHONHASHSEED={hss[0]} and {hs} give different results"})
                break
    if hss:
        g = goldens[hss[0]]
        for (kind, i), calls in hist_out.items():
            if kind == "sim" and i == 3:
                # the single-precision call only disturbs the history: its own numbers depend on
                # the leaf TYPES of the params (weakly typed python floats keep float32, 0-d
                # float64 arrays promote), which are part of the arguments - not compared
                add("single_precision_calls_made", len(calls))
                continue
            for h, leaf, got in calls:
                prefix = f"{'solve' if kind == 'solve' else 'sim'}{i}__"
                missing = [k for k in g if k.startswith(prefix) and k not in got]
                if missing:
                    res["violations"].append({"key": "result_structure_differs", "what": f"call {h} ({kind}, arg set {i}, leaf {leaf}): result lacks {len(missing)} entries that a fresh function object in a fresh process returns (e.g. {missing[0]})"})
                for k, a in got.items():
                    add("golden_entries")
                    if k not in g:
                        res["violations"].append({"key": "result_structure_differs", "what": f"call {h}: result entry {k} missing in the golden table"})
                        break
                    if not same(a, g[k]):
                        dev = float(np.max(np.abs(a - g[k]))) if a.shape == g[k].shape else float("nan")
                        res["violations"].append({"key": "result_depends_on_history", "what": f"call {h} ({kind}, arg set {i}, leaf {leaf}, position in history {h}): entry {k} differs from the result of a fresh function object in a fresh process (max abs dev {dev:.3g})"})
                        break
    import shutil

    shutil.rmtree(rundir, ignore_errors=True)
    res["features"] = {**{k: bool(v) for k, v in realised.items()}, "jit_false_solve": not jit_solve}
    res["sig"] = f"{dsl.shape_signature(desc)}#{pipeline.param_hash(params)}"
    res["nontrivial"] = True
    res["sample"] = {"history": [[k, i] for k, i in history], "hash_seeds": case["hash_seeds"], "signature": dsl.shape_signature(desc)}
    res["status"] = "violated" if res["violations"] else "held"
    return res
