"""C19 - vectorisation dispatchers equal nested loops over named arguments."""
import itertools

import numpy as np

ID = "C19"
LEVEL = "exploration"
RULE = (
    "cases = generated functions with 1-5 parameters of the three kinds (positional-only, positional-or-"
    "keyword, keyword-only; no defaults), body = sum(prime_i * arg_i) (any mis-binding changes the number), "
    "scalar / tuple / dict outputs; productmap over every ordered subset of <= 3 names (exhaustive for "
    "functions with <= 4 parameters, sampled otherwise) with pairwise different lengths; vmap_1d over subsets "
    "(joint pairing); spacemap with both put_dense_first; calls with shuffled keyword order; wrappers "
    "allow_only_kwargs / allow_args / convert_kwargs_to_args / all_as_args / all_as_kwargs incl. missing, "
    "unexpected and positional misuse (-> ValueError). oracle = the closed-form sum by parameter NAME "
    "(python loops). non-trivial = >= 2 parameters and >= 1 mapped name; distinct = (signature kinds, mapped names, output kind)."
)
ASSUMPTIONS = ["for parameters with defaults the statement is silent on omission: admitted outcomes are ValueError or the by-name binding with defaults; a mis-bound value is a violation"]
BATCH = {"quick": 10, "thorough": 30}
FLOORS = {"quick": {"productmap_calls": 800, "vmap1d_calls": 200, "spacemap_calls": 200, "wrapper_calls": 1500, "entries_compared": 50000, "defaults_calls": 300},
          "thorough": {"productmap_calls": 8000, "vmap1d_calls": 2000, "spacemap_calls": 2000, "wrapper_calls": 15000, "entries_compared": 500000, "defaults_calls": 3000}}
PRIMES = [2, 3, 5, 7, 11]
NAMES = ["a", "b", "c", "d", "e"]


def plan(tier, seed):
    n = 140 if tier == "quick" else 1600
    return [{"index": i, "seed": [seed, 191, i], "env": {"VERIF_X64": "1"}} for i in range(n)]


def make_function(n, kinds, out):
    """kinds: list of 'po' | 'pk' | 'ko' (ordered)."""
    names = NAMES[:n]
    parts = []
    po = [x for x, k in zip(names, kinds) if k == "po"]
    pk = [x for x, k in zip(names, kinds) if k == "pk"]
    ko = [x for x, k in zip(names, kinds) if k == "ko"]
    if po:
        parts += po + ["/"]
    parts += pk
    if ko:
        parts += ["*"] + ko
    # coefficient by NAME (independent of the position in the signature)
    coef = {x: PRIMES[NAMES.index(x)] for x in names}
    expr = " + ".join(f"{coef[x]} * {x}" for x in names)
    if out == "scalar":
        ret = expr
    elif out == "tuple":
        ret = f"({expr}, -({expr}))"
    else:
        ret = "{'u': " + expr + ", 'v': 2.0 * (" + expr + ")}"
    src = f"def f({', '.join(parts)}):\n    return {ret}\n"
    ns = {}
    exec(src, ns)  # noqa: S102
    return ns["f"], src, coef, po, pk, ko


def expected(coef, values, mapped, layout):
    """values: name -> scalar or 1d array; mapped (ordered list of lists): axis groups."""
    # each group of jointly mapped names forms one axis
    vec = values.get("__vec__")
    shape = [len(values[g[0]]) for g in layout] + ([7] if vec else [])
    nd = len(shape)
    tot = np.zeros(shape)
    for x, c in coef.items():
        v = np.asarray(values[x], dtype=float)
        gi = [i for i, g in enumerate(layout) if x in g]
        if gi:
            sh = [1] * nd
            sh[gi[0]] = len(v)
            tot = tot + c * v.reshape(sh)
        elif x == vec:
            tot = tot + c * v.reshape([1] * (nd - 1) + [7])
        else:
            tot = tot + c * v
    return tot


def compare(got, exp, out, res, what, add):
    try:
        if out == "scalar":
            parts = [(np.asarray(got, dtype=float), exp)]
        elif out == "tuple":
            parts = [(np.asarray(got[0], dtype=float), exp), (np.asarray(got[1], dtype=float), -exp)]
        else:
            parts = [(np.asarray(got["u"], dtype=float), exp), (np.asarray(got["v"], dtype=float), 2.0 * exp)]
    except Exception as e:  # noqa: BLE001
        res["violations"].append({"key": "output_structure", "what": f"{what}: output structure wrong ({type(e).__name__})"})
        return
    for g, e in parts:
        add("entries_compared", e.size)
        if g.shape != e.shape:
            res["violations"].append({"key": "axes_shape", "what": f"{what}: output shape {g.shape}, expected {e.shape} (axes follow the order of the listed names)"})
            return
        if not np.allclose(g, e, rtol=1e-12, atol=1e-9):
            res["violations"].append({"key": "entry_mismatch", "what": f"{what}: entries differ from the loop result (max dev {np.abs(g - e).max():.3g})"})
            return


def run_case(case):
    from vlib import pipeline
    import jax.numpy as jnp
    from lcm import dispatchers as D
    from lcm import functools as FT

    rng = pipeline.case_rng(case)
    res = {"counters": {}, "maxima": {}, "violations": [], "features": {}, "nontrivial": False}
    cnt = res["counters"]

    def add(k, n=1):
        cnt[k] = cnt.get(k, 0) + int(n)

    n = int(rng.integers(1, 6))
    cut1 = int(rng.integers(0, n + 1))
    cut2 = int(rng.integers(cut1, n + 1))
    mode = case["index"] % 4
    if mode == 0:
        kinds = ["pk"] * n
    elif mode == 1:
        kinds = ["pk"] * cut2 + ["ko"] * (n - cut2)
    elif mode == 2:
        kinds = ["po"] * cut1 + ["pk"] * (n - cut1)
    else:
        kinds = ["po"] * cut1 + ["pk"] * (cut2 - cut1) + ["ko"] * (n - cut2)
    out = ["scalar", "tuple", "dict"][int(rng.integers(0, 3))]
    f, src, coef, po, pk, ko = make_function(n, kinds, out)
    names = NAMES[:n]
    lens = {x: l for x, l in zip(names, rng.permutation([2, 3, 4, 5, 6])[:n])}

    def values_for(mapped_groups):
        vals = {}
        flat = [x for g in mapped_groups for x in g]
        unmapped = [x for x in names if x not in flat]
        vec = str(rng.choice(unmapped)) if unmapped and rng.random() < 0.3 else None
        for x in names:
            if x in flat:
                g = [g for g in mapped_groups if x in g][0]
                L = int(lens[g[0]])
                vals[x] = np.round(rng.uniform(-3, 3, L), 3)
            elif x == vec:
                # an unmapped ARRAY argument is passed through: every entry of the result is a vector
                vals[x] = np.round(rng.uniform(-3, 3, 7), 3)
            else:
                vals[x] = float(np.round(rng.uniform(-3, 3), 3))
        vals["__vec__"] = vec
        return vals

    def call_kw(fn, vals):
        order = [str(x) for x in rng.permutation(names)]
        return fn(**{x: (jnp.asarray(vals[x]) if np.ndim(vals[x]) else vals[x]) for x in order})

    # ---------------------------------------------------------------- productmap
    subsets = [p for k in range(1, min(n, 3) + 1) for p in itertools.permutations(names, k)]
    if n > 4 or len(subsets) > 24:
        subsets = [subsets[i] for i in rng.permutation(len(subsets))[:24]]
    for sub in subsets:
        sub = list(sub)
        layout = [[x] for x in sub]
        vals = values_for(layout)
        try:
            got = call_kw(D.productmap(f, sub), vals)
        except Exception as e:  # noqa: BLE001
            res["violations"].append({"key": pipeline.exc_key(e, "productmap") + f"|kinds={'-'.join(sorted(set(kinds)))}", "what": pipeline.exc_text(e) + f" :: productmap({src.splitlines()[0]}, {sub})"})
            continue
        add("productmap_calls")
        compare(got, expected(coef, vals, sub, layout), out, res, f"productmap({src.splitlines()[0]} variables={sub})", add)
        # the caller's list of names is an argument like any other: it must come back unchanged,
        # and a second dispatcher built from the SAME list object must give the same axes
        if sub != [x[0] for x in layout]:
            res["violations"].append({"key": "productmap_mutates_argument", "what": f"productmap changed the caller's list of variables from {[x[0] for x in layout]} to {sub}"})
            sub[:] = [x[0] for x in layout]
        elif len(sub) >= 2 and rng.random() < 0.5:
            try:
                got2 = call_kw(D.productmap(f, sub), vals)
                add("productmap_calls")
                add("dispatchers_built_twice_from_one_list")
                compare(got2, expected(coef, vals, sub, layout), out, res, f"second productmap built from the same list object {sub}", add)
            except Exception as e:  # noqa: BLE001
                res["violations"].append({"key": pipeline.exc_key(e, "productmap_second") + f"|kinds={'-'.join(sorted(set(kinds)))}", "what": pipeline.exc_text(e)})
    # duplicates are rejected
    if n >= 1:
        try:
            D.productmap(f, [names[0], names[0]])
            res["violations"].append({"key": "productmap_duplicates_accepted", "what": "productmap accepted the same name twice"})
        except ValueError:
            add("rejections_ok")
        except Exception as e:  # noqa: BLE001
            res["violations"].append({"key": "productmap_duplicates_other_exception", "what": pipeline.exc_text(e)})
    # ---------------------------------------------------------------- vmap_1d
    for _ in range(3):
        k = int(rng.integers(1, n + 1))
        sub = [str(x) for x in rng.permutation(names)[:k]]
        layout = [sub]
        vals = values_for(layout)
        try:
            got = call_kw(D.vmap_1d(f, sub), vals)
        except Exception as e:  # noqa: BLE001
            res["violations"].append({"key": pipeline.exc_key(e, "vmap_1d") + f"|kinds={'-'.join(sorted(set(kinds)))}", "what": pipeline.exc_text(e) + f" :: vmap_1d({src.splitlines()[0]}, {sub})"})
            continue
        add("vmap1d_calls")
        compare(got, expected(coef, vals, sub, layout), out, res, f"vmap_1d({src.splitlines()[0]} variables={sub})", add)
    # ---------------------------------------------------------------- spacemap
    for _ in range(3):
        perm = [str(x) for x in rng.permutation(names)]
        kd = int(rng.integers(0, min(n, 2) + 1))
        ks = int(rng.integers(0, n - kd + 1))
        dense, sparse = perm[:kd], perm[kd:kd + ks]
        if not dense and not sparse:
            continue
        first = bool(rng.random() < 0.5)
        layout_d = [[x] for x in dense]
        layout_s = [sparse] if sparse else []
        layout = (layout_d + layout_s) if (first or not sparse) else (layout_s + layout_d)
        vals = values_for(layout)
        try:
            got = call_kw(D.spacemap(f, dense_vars=dense, sparse_vars=sparse, put_dense_first=first), vals)
        except Exception as e:  # noqa: BLE001
            res["violations"].append({"key": pipeline.exc_key(e, "spacemap") + f"|kinds={'-'.join(sorted(set(kinds)))}", "what": pipeline.exc_text(e) + f" :: spacemap({src.splitlines()[0]}, dense={dense}, sparse={sparse})"})
            continue
        add("spacemap_calls")
        compare(got, expected(coef, vals, dense + sparse, layout), out, res, f"spacemap({src.splitlines()[0]} dense={dense} sparse={sparse} put_dense_first={first})", add)
        if dense != [x[0] for x in layout_d] or (sparse and sparse != layout_s[0]):
            res["violations"].append({"key": "spacemap_mutates_argument", "what": f"spacemap changed the caller's lists: dense {[x[0] for x in layout_d]} -> {dense}, sparse {layout_s} -> {sparse}"})
        elif len(dense) >= 2:
            try:
                got2 = call_kw(D.spacemap(f, dense_vars=dense, sparse_vars=sparse, put_dense_first=first), vals)
                add("spacemap_calls")
                add("dispatchers_built_twice_from_one_list")
                compare(got2, expected(coef, vals, dense + sparse, layout), out, res, f"second spacemap built from the same list objects dense={dense}", add)
            except Exception as e:  # noqa: BLE001
                res["violations"].append({"key": pipeline.exc_key(e, "spacemap_second") + f"|kinds={'-'.join(sorted(set(kinds)))}", "what": pipeline.exc_text(e)})
    if n >= 2:
        try:
            D.spacemap(f, dense_vars=[names[0]], sparse_vars=[names[0]], put_dense_first=True)
            res["violations"].append({"key": "spacemap_overlap_accepted", "what": "spacemap accepted overlapping dense and sparse names"})
        except ValueError:
            add("rejections_ok")
        except Exception as e:  # noqa: BLE001
            res["violations"].append({"key": "spacemap_overlap_other_exception", "what": pipeline.exc_text(e)})
    # ---------------------------------------------------------------- wrappers
    sc = {x: float(np.round(rng.uniform(-3, 3), 3)) for x in names}
    exp_sc = expected(coef, sc, [], [])
    for _ in range(4):
        try:
            g = FT.allow_only_kwargs(f)
            compare(call_kw(g, sc), exp_sc, out, res, f"allow_only_kwargs({src.splitlines()[0]})", add)
            add("wrapper_calls")
            for bad, label in (((lambda: g(*[sc[x] for x in names])), "positional"),
                               ((lambda: g(**{x: sc[x] for x in names[1:]})), "missing"),
                               ((lambda: g(**sc, zzz=1.0)), "unexpected")):
                try:
                    bad()
                    res["violations"].append({"key": f"allow_only_kwargs_{label}_accepted", "what": f"allow_only_kwargs wrapper accepted a call with {label} arguments"})
                except ValueError:
                    add("rejections_ok")
                except Exception as e:  # noqa: BLE001
                    res["violations"].append({"key": f"allow_only_kwargs_{label}_other_exception|{type(e).__name__}", "what": pipeline.exc_text(e)})
                add("wrapper_calls")
        except Exception as e:  # noqa: BLE001
            res["violations"].append({"key": pipeline.exc_key(e, "allow_only_kwargs") + f"|kinds={'-'.join(sorted(set(kinds)))}", "what": pipeline.exc_text(e)})
        try:
            h = FT.allow_args(f)
            kpos = int(rng.integers(0, n + 1))
            rest = [str(x) for x in rng.permutation(names[kpos:])]
            compare(h(*[sc[x] for x in names[:kpos]], **{x: sc[x] for x in rest}), exp_sc, out, res, f"allow_args({src.splitlines()[0]}) with {kpos} positional", add)
            add("wrapper_calls")
            for bad, label in (((lambda: h(*[sc[x] for x in names], 1.0)), "too_many"),
                               ((lambda: h(*[sc[x] for x in names[:-1]])), "too_few"),
                               ((lambda: h(*[sc[x] for x in names[:-1]], zzz=sc[names[-1]])), "one_unknown_keyword_right_count"),
                               ((lambda: h(**{("zzz" if j == 0 else x): sc[x] for j, x in enumerate(names)})), "first_keyword_unknown")):
                try:
                    bad()
                    res["violations"].append({"key": f"allow_args_{label}_accepted", "what": f"allow_args wrapper accepted a call with {label} arguments"})
                except ValueError:
                    add("rejections_ok")
                except Exception as e:  # noqa: BLE001
                    res["violations"].append({"key": f"allow_args_{label}_other_exception|{type(e).__name__}", "what": pipeline.exc_text(e)})
                add("wrapper_calls")
        except Exception as e:  # noqa: BLE001
            res["violations"].append({"key": pipeline.exc_key(e, "allow_args") + f"|kinds={'-'.join(sorted(set(kinds)))}", "what": pipeline.exc_text(e)})
        # conversion helpers
        order = [str(x) for x in rng.permutation(names)]
        kw = {x: sc[x] for x in order}
        if FT.convert_kwargs_to_args(kw, names) != [sc[x] for x in names]:
            res["violations"].append({"key": "convert_kwargs_to_args", "what": "values are not returned in the order of the parameter list"})
        kpos = int(rng.integers(0, n + 1))
        kw2 = {x: sc[x] for x in [str(y) for y in rng.permutation(names[kpos:])]}
        if tuple(FT.all_as_args(tuple(sc[x] for x in names[:kpos]), kw2, arg_names=names)) != tuple(sc[x] for x in names):
            res["violations"].append({"key": "all_as_args", "what": "all_as_args does not return the values in parameter order"})
        if FT.all_as_kwargs(tuple(sc[x] for x in names[:kpos]), kw2, arg_names=names) != sc:
            res["violations"].append({"key": "all_as_kwargs", "what": "all_as_kwargs does not bind values to the parameters of the same name"})
        add("wrapper_calls", 3)
    # ---------------------------------------------------------------- parameters with defaults
    # The statement does not say what the wrappers do when a parameter with a default is
    # omitted, so two outcomes are admitted: ValueError (rejected as missing) or the value of
    # the wrapped function with every GIVEN value bound to the parameter of the same name
    # and the defaults for the rest.  Anything else - a number that arises from binding a
    # value to another parameter - violates "bound to the parameter of the same name".
    if n >= 2:
        nd = int(rng.integers(1, n))  # the last nd parameters get defaults
        dnames = names[n - nd:]
        dflt = {x: float(10 + 3 * NAMES.index(x)) for x in dnames}
        parts = [x for x in names[: n - nd]] + [f"{x}={dflt[x]}" for x in dnames]
        if case["index"] % 2 and nd < n:
            parts = names[: n - nd] + ["*"] + [f"{x}={dflt[x]}" for x in dnames]
        srcd = f"def fd({', '.join(parts)}):\n    return {' + '.join(f'{coef[x]} * {x}' for x in names)}\n"
        nsd = {}
        exec(srcd, nsd)  # noqa: S102
        fd = nsd["fd"]
        for wname, wrap in (("allow_only_kwargs", FT.allow_only_kwargs), ("allow_args", FT.allow_args)):
            try:
                gd = wrap(fd)
            except ValueError:
                add("defaults_wrapper_rejected_function")
                continue
            except Exception as e:  # noqa: BLE001
                res["violations"].append({"key": f"defaults_{wname}_creation|{type(e).__name__}", "what": pipeline.exc_text(e) + " :: " + srcd.splitlines()[0]})
                continue
            for _ in range(4):
                omit = [x for x in dnames if rng.random() < 0.5]
                given = [str(x) for x in rng.permutation([x for x in names if x not in omit])]
                byname = float(sum(coef[x] * (sc[x] if x in given else dflt[x]) for x in names))
                try:
                    if wname == "allow_args" and "*" not in parts:
                        pos = [x for x in names if x in given]
                        kp = int(rng.integers(0, len(pos) + 1))
                        # positional prefix must be a prefix of the signature to be meaningful
                        kp = min(kp, next((i for i, x in enumerate(names) if x not in given), len(names)))
                        got = gd(*[sc[x] for x in names[:kp]], **{x: sc[x] for x in given if x not in names[:kp]})
                    else:
                        got = gd(**{x: sc[x] for x in given})
                    add("defaults_calls_accepted")
                    if not abs(float(got) - byname) <= 1e-9 * (1 + abs(byname)):
                        res["violations"].append({"key": f"defaults_{wname}_misbinds", "what": f"{wname}({srcd.splitlines()[0]}) called with {given} (omitted {omit}) returned {float(got)!r}; binding by name gives {byname!r}"})
                except ValueError:
                    add("defaults_calls_rejected")
                except Exception as e:  # noqa: BLE001
                    res["violations"].append({"key": f"defaults_{wname}_other_exception|{type(e).__name__}", "what": pipeline.exc_text(e) + f" :: {srcd.splitlines()[0]} given={given}"})
                add("wrapper_calls")
                add("defaults_calls")
    # ---------------------------------------------------------------- derived functions
    # a decorated variant of a function that was ALREADY dispatched (functools.wraps copies the
    # attributes of f onto g): every dispatcher must map g, not anything remembered about f
    if not po:
        import functools as _ft
        import jax as _jax

        @_ft.wraps(f)
        def g(*a, **k):
            return _jax.tree_util.tree_map(lambda x: 3.0 * x, f(*a, **k))

        coef3 = {x: 3.0 * c for x, c in coef.items()}
        k = int(rng.integers(1, n + 1))
        sub = [str(x) for x in rng.permutation(names)[:k]]
        for dname, build, layout in (("productmap", lambda: D.productmap(g, list(sub)), [[x] for x in sub]),
                                     ("vmap_1d", lambda: D.vmap_1d(g, list(sub)), [sub]),
                                     ("spacemap", lambda: D.spacemap(g, dense_vars=list(sub[:1]), sparse_vars=list(sub[1:]), put_dense_first=True), [[x] for x in sub[:1]] + ([sub[1:]] if sub[1:] else []))):
            vals = values_for(layout)
            try:
                got = call_kw(build(), vals)
            except Exception as e:  # noqa: BLE001
                res["violations"].append({"key": pipeline.exc_key(e, "derived_" + dname), "what": pipeline.exc_text(e) + f" :: {dname} of a functools.wraps-decorated variant of {src.splitlines()[0]}"})
                continue
            add("derived_function_calls")
            compare(got, expected(coef3, vals, sub, layout), out, res, f"{dname} of g = wraps(f)(3 * f) after f itself was dispatched ({src.splitlines()[0]} variables={sub})", add)
        try:
            got = FT.allow_args(g)(**{x: sc[x] for x in names})
            want = 3.0 * float(sum(coef[x] * sc[x] for x in names))
            got0 = got if out == "scalar" else (got[0] if out == "tuple" else got["u"])
            add("derived_function_calls")
            if not abs(float(got0) - want) <= 1e-9 * (1 + abs(want)):
                res["violations"].append({"key": "derived_allow_args_entry_mismatch", "what": f"allow_args(g) with g = wraps(f)(3 * f) returned {float(got0)!r}, expected {want!r}"})
        except Exception as e:  # noqa: BLE001
            res["violations"].append({"key": pipeline.exc_key(e, "derived_allow_args"), "what": pipeline.exc_text(e)})
    res["features"] = {"kinds_" + "-".join(sorted(set(kinds))): True, "out_" + out: True}
    res["sig"] = f"{kinds}{out}"
    res["nontrivial"] = n >= 2
    res["sample"] = {"function": src, "lengths": {k: int(v) for k, v in lens.items()}}
    res["status"] = "violated" if res["violations"] else "held"
    return res
