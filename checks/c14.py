"""C14 - pre-computed values on a grid are represented as a faithful function."""
import itertools

import numpy as np

ID = "C14"
LEVEL = "exploration"
RULE = (
    "direct calls of lcm.function_representation.get_function_representation with random SpaceInfo: 0-2 "
    "restricted states with random feasibility masks (indexer built by the harness from the statement AND "
    "by create_indexers_and_segments; both must give the same function), 0-2 unrestricted discrete states, "
    "0-3 continuous states on linear/log grids of unequal sizes, random value arrays; evaluation points = "
    "nodes, midpoints, random interior, out-of-range (linear grids only); evaluated scalar, vmapped and "
    "jitted, with and without input_prefix, under jax checkify index checks. oracle = reference lookup + "
    "multilinear interpolation; plus the three structural clauses directly (node reproduction 1e-12, zero "
    "second difference between neighbouring nodes, linear continuation of the outermost segment). "
    "non-trivial = >= 1 continuous and >= 1 discrete variable or >= 2 continuous; distinct = space signature."
)
ASSUMPTIONS = ["numpy reference interpolation (vlib.refmodel)", "log grids are only evaluated inside their range"]
BATCH = {"quick": 8, "thorough": 20}
FLOORS = {"quick": {"points_compared": 20000, "spaces": 100, "node_points": 2000, "outside_points": 500},
          "thorough": {"points_compared": 300000, "spaces": 1200, "node_points": 40000, "outside_points": 10000}}


def plan(tier, seed):
    n = 130 if tier == "quick" else 1500
    cases = [{"index": i, "seed": [seed, 141, i], "env": {"VERIF_X64": "1" if i % 6 else "0"}} for i in range(n)]
    cases += [{"kind": "exact_inf", "index": i, "seed": [seed, 142, i], "env": {"VERIF_X64": "1" if i % 4 else "0"}} for i in range(n // 5)]
    return cases


def run_exact_inf(case):
    """Value arrays with -inf entries (states without feasible choice) on grids whose node
    coordinates are EXACT (integer nodes, step 1): at nodes the stored entry must come back,
    -inf included, and never NaN."""
    from vlib import bootstrap, dsl, pipeline
    import jax
    import jax.numpy as jnp
    from lcm.function_representation import get_function_representation
    from lcm.interfaces import SpaceInfo

    rng = pipeline.case_rng(case)
    res = {"counters": {}, "maxima": {}, "violations": [], "features": {"exact_inf": True}, "nontrivial": True}
    cnt = res["counters"]
    n_dd, n_ct = int(rng.integers(0, 2)), int(rng.integers(1, 4))
    dd, ct = [f"d{j}" for j in range(n_dd)], [f"w{j}" for j in range(n_ct)]
    spec = {v: {"kind": "disc", "n": int(rng.integers(2, 4))} for v in dd}
    for v, n in zip(ct, rng.permutation([2, 3, 4, 5, 6])[:n_ct]):
        a = int(rng.integers(-3, 4))
        spec[v] = {"kind": "lin", "start": float(a), "stop": float(a + int(n) - 1), "n": int(n)}
    gridspecs = {v: dsl.make_grid(spec[v]) for v in spec}
    shape = tuple(spec[v]["n"] for v in dd + ct)
    arr = rng.normal(size=shape) * 5
    holes = rng.random(shape) < rng.uniform(0.15, 0.5)
    holes.flat[int(rng.integers(0, holes.size))] = False
    arr = np.where(holes, -np.inf, arr)
    info = SpaceInfo(axis_names=dd + ct, lookup_info={v: gridspecs[v] for v in dd}, interpolation_info={v: gridspecs[v] for v in ct}, indexer_infos=[])
    try:
        f = get_function_representation(info, "vf_arr")
        K = 64
        idx = [rng.integers(0, spec[v]["n"], K) for v in dd + ct]
        pts = {v: (idx[j] if v in dd else (spec[v]["start"] + idx[j]).astype(float)) for j, v in enumerate(dd + ct)}
        exp = arr[tuple(idx)]
        got = np.asarray(jax.vmap(lambda *q: f(**dict(zip(dd + ct, q)), vf_arr=jnp.asarray(arr)))(*[jnp.asarray(pts[v]) for v in dd + ct]), dtype=float)
    except Exception as e:  # noqa: BLE001
        res["violations"].append({"key": pipeline.exc_key(e, "exact_inf"), "what": pipeline.exc_text(e)})
        res["status"] = "violated"
        return res
    cnt["exact_inf_node_points"] = K
    cnt["exact_inf_points_with_inf_entry"] = int(np.isinf(exp).sum())
    tol = 1e-10 if bootstrap.X64 else 1e-4
    with np.errstate(invalid="ignore"):
        ok = (got == exp) | ((np.abs(got - exp) <= tol * (1 + np.abs(exp))) & np.isfinite(exp) & np.isfinite(got))
    if not ok.all():
        k0 = int(np.argmin(ok))
        res["violations"].append({"key": "node_not_reproduced_next_to_infinite_entries", "what": f"array {shape} with -inf entries, integer-node grids: at node { {v: float(pts[v][k0]) for v in dd + ct} } the function returns {got[k0]!r}, stored entry {exp[k0]!r} ({int((~ok).sum())}/{K} nodes)"})
    res["sig"] = f"exactinf{shape}"
    res["sample"] = {"kind": "exact_inf", "array_shape": list(shape), "infinite_entries": int(holes.sum())}
    res["status"] = "violated" if res["violations"] else "held"
    return res


def run_case(case):
    if case.get("kind") == "exact_inf":
        return run_exact_inf(case)
    from vlib import bootstrap, dsl, pipeline
    from vlib.refmodel import ref_coord, ref_map_coordinates
    import jax
    import jax.numpy as jnp
    from jax.experimental import checkify
    from lcm.function_representation import get_function_representation
    from lcm.interfaces import IndexerInfo, SpaceInfo
    from lcm.state_space import create_indexers_and_segments

    rng = pipeline.case_rng(case)
    x64 = bootstrap.X64
    tol = 1e-10 if x64 else 3e-4
    res = {"counters": {}, "maxima": {}, "violations": [], "features": {}, "nontrivial": False}
    cnt = res["counters"]

    def add(k, n=1):
        cnt[k] = cnt.get(k, 0) + int(n)

    i = case["index"]
    n_sp = [0, 1, 2][int(rng.integers(0, 3))]
    n_dd = int(rng.integers(0, 3))
    n_ct = int(rng.integers(0, 4))
    if n_sp + n_dd + n_ct == 0:
        n_ct = 1
    prefix = ["", "next_", "x_"][i % 3]
    sp = [f"s{j}" for j in range(n_sp)]
    dd = [f"d{j}" for j in range(n_dd)]
    ct = [f"w{j}" for j in range(n_ct)]
    spec = {}
    big_disc = i % 5 in (1, 2)  # many categories, labels handed over as int8 / uint8 (see label_dtype)
    for v in sp + dd:
        spec[v] = {"kind": "disc", "n": int(rng.integers(2, 5)) if not (big_disc and v in dd) else int(rng.integers(12, 21))}
    if big_disc and n_dd < 2:
        dd = ["d0", "d1"]
        n_dd = 2
        for v in dd:
            spec[v] = {"kind": "disc", "n": int(rng.integers(12, 21))}
    sizes = rng.permutation([2, 3, 4, 5, 6, 7])[: n_ct]
    if i % 7 == 5 and n_ct >= 1 and x64:  # single precision cannot resolve thousands of cells to the tolerance used here
        sizes = list(sizes)
        sizes[0] = int(rng.integers(800, 2500))  # a long axis: node indices in the thousands
        add("long_axis_cases")
    for v, n in zip(ct, sizes):
        if rng.random() < 0.35:
            st = float(rng.uniform(0.2, 3))
            spec[v] = {"kind": "log", "start": round(st, 4), "stop": round(st * float(rng.uniform(2, 50)), 4), "n": int(n)}
        else:
            st = float(rng.uniform(-5, 5))
            spec[v] = {"kind": "lin", "start": round(st, 4), "stop": round(st + float(rng.uniform(0.5, 40)), 4), "n": int(n)}
    grid = {v: dsl.ref_grid(spec[v]) for v in spec}
    gridspecs = {v: dsl.make_grid(spec[v]) for v in spec}
    # feasibility of restricted states (with 1-2 dummy restricted choice axes)
    lead = ()
    indexer = None
    indexer2 = None
    if sp:
        cshape = tuple(int(x) for x in rng.integers(1, 4, int(rng.integers(0, 3))))
        mask = rng.random(tuple(spec[v]["n"] for v in sp) + cshape) < 0.7
        mask.flat[0] = True
        feas = mask.any(axis=tuple(range(len(sp), mask.ndim))) if cshape else mask
        indexer = np.full(feas.shape, -1)
        indexer[feas] = np.arange(int(feas.sum()))
        try:
            indexer2 = np.asarray(create_indexers_and_segments(mask, len(sp))[0])
        except Exception as e:  # noqa: BLE001
            res["violations"].append({"key": pipeline.exc_key(e, "create_indexers_and_segments"), "what": pipeline.exc_text(e)})
        lead = (int(feas.sum()),)
    shape = lead + tuple(spec[v]["n"] for v in dd + ct)
    arr = rng.normal(size=shape) * float(10 ** rng.uniform(-1, 3))
    jarr = jnp.asarray(arr)
    arr_used = np.asarray(jarr, dtype=float)
    # the ORDER of the info dicts carries no meaning (axis_names defines the layout): shuffled
    lk, ik = list(sp + dd), list(ct)
    if i % 2 == 1:
        lk = [str(x) for x in rng.permutation(lk)] if lk else lk
        ik = [str(x) for x in rng.permutation(ik)] if ik else ik
        add("info_dict_orders_shuffled")
    info = SpaceInfo(
        axis_names=(["state_index"] if sp else []) + dd + ct,
        lookup_info={v: gridspecs[v] for v in lk},
        interpolation_info={v: gridspecs[v] for v in ik},
        indexer_infos=[IndexerInfo(axis_names=sp, name="state_indexer", out_name="state_index")] if sp else [],
    )
    # process history: right before the judged representation, one for the same space with the
    # grid KINDS swapped (same start/stop/n, same names, same prefix) is built and evaluated
    # once; nothing of it is judged (anything memoised without the grid kind collides)
    try:
        sw = {v: ({**spec[v], "kind": "log"} if spec[v]["kind"] == "lin" and spec[v]["start"] > 0 else ({**spec[v], "kind": "lin"} if spec[v]["kind"] == "log" else spec[v])) for v in ct}
        if ct and any(sw[v]["kind"] != spec[v]["kind"] for v in ct):
            gs_sw = {**gridspecs, **{v: dsl.make_grid(sw[v]) for v in ct}}
            info_sw = SpaceInfo(axis_names=info.axis_names, lookup_info=info.lookup_info,
                                interpolation_info={v: gs_sw[v] for v in ct}, indexer_infos=info.indexer_infos)
            f_sw = get_function_representation(info_sw, "vf_arr", input_prefix=prefix)
            kw_sw = {"vf_arr": jarr}
            if sp:
                kw_sw["state_indexer"] = jnp.asarray(indexer)
            for v in sp:
                kw_sw[prefix + v] = int(np.argwhere(indexer >= 0)[0][sp.index(v)])
            for v in dd:
                kw_sw[prefix + v] = 0
            for v in ct:
                kw_sw[prefix + v] = float(dsl.ref_grid(sw[v])[0])
            f_sw(**kw_sw)
            add("swapped_kind_siblings_built")
    except Exception:  # noqa: BLE001 - the sibling is not under test
        add("swapped_kind_sibling_failed")
    try:
        f = get_function_representation(info, "vf_arr", input_prefix=prefix)
    except Exception as e:  # noqa: BLE001
        res["violations"].append({"key": pipeline.exc_key(e, "get_function_representation"), "what": pipeline.exc_text(e)})
        res["status"] = "violated"
        return res
    add("spaces")
    # ---- evaluation points ----------------------------------------------------------------
    K = 96
    pts = {}
    if sp:
        combos = np.argwhere(indexer >= 0)
        pick = combos[rng.integers(0, len(combos), K)]
        for j, v in enumerate(sp):
            pts[v] = pick[:, j]
    for v in dd:
        pts[v] = rng.integers(0, spec[v]["n"], K)
    kind_pt = rng.integers(0, 4, K)  # 0 node, 1 midpoint, 2 interior, 3 outside (lin) / interior (log)
    int_typed = set()
    outside = np.zeros(K, bool)
    for v in ct:
        g = grid[v]
        n = len(g)
        node = g[rng.integers(0, n, K)]
        lo = rng.integers(0, n - 1, K)
        mid = 0.5 * (g[lo] + g[lo + 1])
        inter = rng.uniform(g[0], g[-1], K)
        if spec[v]["kind"] == "lin":
            w = g[-1] - g[0]
            out = np.where(rng.random(K) < 0.5, g[0] - rng.random(K) * 0.6 * w, g[-1] + rng.random(K) * 0.6 * w)
        else:
            out = inter
        val = np.choose(kind_pt, [node, mid, inter, out])
        if i % 6 == 4 and np.floor(g[-1]) - np.ceil(g[0]) >= 1:
            # integer-VALUED evaluation points, handed over with an integer dtype (see mk)
            val = rng.integers(int(np.ceil(g[0])), int(np.floor(g[-1])) + 1, K).astype(float)
            int_typed.add(v)
        pts[v] = val
        if spec[v]["kind"] == "lin":
            outside |= (kind_pt == 3)
    names = sp + dd + ct
    kw_static = {"vf_arr": jarr}
    if sp:
        kw_static["state_indexer"] = jnp.asarray(indexer)

    def expected(pts_, idxr):
        idx = []
        if sp:
            idx.append(idxr[tuple(pts_[v] for v in sp)])
        for v in dd:
            idx.append(pts_[v])
        if not ct:
            return arr_used[tuple(idx)] if idx else np.broadcast_to(arr_used, (K,))
        out = np.empty(K)
        coords = [ref_coord(spec[v], np.asarray(jnp.asarray(grid[v]), dtype=float) if not x64 else grid[v], np.asarray(jnp.asarray(pts_[v]), dtype=float)) for v in ct]
        for k in range(K):
            sub = arr_used[tuple(ix[k] for ix in idx)] if idx else arr_used
            out[k] = ref_map_coordinates(sub, [c[k] for c in coords])
        return out

    exp = expected(pts, indexer)
    scale = np.abs(arr_used).max() + 1e-30
    amp = np.ones(K)
    for v in ct:
        if spec[v]["kind"] == "lin":
            g = grid[v]
            step = (g[-1] - g[0]) / (len(g) - 1)
            amp = amp * (1 + np.maximum(0, np.maximum(g[0] - pts[v], pts[v] - g[-1])) / step)

    def judge(got, what):
        got = np.asarray(got, dtype=float).reshape(-1)
        add("points_compared", K)
        if got.shape != (K,):
            res["violations"].append({"key": "output_shape", "what": f"{what}: output shape {got.shape}"})
            return
        dev = np.abs(got - exp) / (scale * amp)
        res["maxima"]["max_dev_x64" if x64 else "max_dev_f32"] = max(res["maxima"].get("max_dev_x64" if x64 else "max_dev_f32", 0.0), float(dev.max()))
        if np.any(dev > tol):
            k0 = int(np.argmax(dev))
            res["violations"].append({"key": "value_mismatch", "what": f"{what}: point { {v: float(pts[v][k0]) for v in names} } -> {got[k0]!r}, expected (lookup + multilinear interpolation) {exp[k0]!r}; space restricted={sp} discrete={dd} continuous={[(v, spec[v]['kind'], spec[v]['n']) for v in ct]} prefix='{prefix}'"})

    label_dtype = [None, np.int8, np.uint8, np.int16, np.int32][i % 5] if (sp or dd) else None
    if label_dtype is not None:
        add("narrow_label_dtype_cases")

    def mk(pts_):
        return [jnp.asarray(np.asarray(pts_[v]).astype(label_dtype)) if (label_dtype is not None and v in sp + dd)
                else (jnp.asarray(np.asarray(pts_[v]).astype(np.int64)) if v in int_typed else jnp.asarray(pts_[v])) for v in names]

    try:
        # scalar calls (first 6 points)
        sc = []
        for k in range(6):
            sc.append(float(f(**{prefix + v: jnp.asarray(pts[v][k]) for v in names}, **kw_static)))
        sc = np.asarray(sc)
        add("scalar_points", 6)
        if np.any(np.abs(sc - exp[:6]) / (scale * amp[:6]) > tol):
            res["violations"].append({"key": "value_mismatch_scalar", "what": f"scalar evaluation differs from the reference: {sc.tolist()} vs {exp[:6].tolist()}"})
        g = lambda *p, **st: f(**{prefix + v: x for v, x in zip(names, p)}, **st)  # noqa: E731
        vm = jax.vmap(lambda *p: g(*p, **kw_static))
        judge(vm(*mk(pts)), "vmap")
        jt = jax.jit(vm)
        judge(jt(*mk(pts)), "jit(vmap)")
        # harness-built indexer vs lcm-built indexer give the same function
        if sp and indexer2 is not None:
            if indexer2.shape != indexer.shape or not np.array_equal(indexer2, indexer):
                res["violations"].append({"key": "indexer_differs_from_statement", "what": "create_indexers_and_segments' indexer differs from rank-or-minus-one"})
            kw2 = dict(kw_static, state_indexer=jnp.asarray(indexer2))
            judge(jax.vmap(lambda *p: g(*p, **kw2))(*mk(pts)), "vmap with lcm-built indexer")
        # checkify: no out-of-bounds read on valid points
        chk = jax.jit(checkify.checkify(vm, errors=checkify.index_checks))
        err, _ = chk(*mk(pts))
        add("checkify_runs")
        if err.get():
            res["violations"].append({"key": "checkify_index_oob", "what": f"out-of-bounds index while evaluating valid points: {str(err.get())[:200]}"})
    except Exception as e:  # noqa: BLE001
        res["violations"].append({"key": pipeline.exc_key(e, "evaluate"), "what": pipeline.exc_text(e)})
        res["status"] = "violated"
        return res
    add("node_points", int((kind_pt == 0).sum()) if ct else K)
    add("outside_points", int(outside.sum()))
    int_typed.clear()  # the structural clauses below use fractional points
    # ---- structural clauses, directly ---------------------------------------------------------
    if ct:
        v = ct[int(rng.integers(0, len(ct)))]
        gg = grid[v]
        n = len(gg)
        base = {u: pts[u].copy() for u in names}
        for u in ct:  # all other continuous variables at nodes
            base[u] = grid[u][rng.integers(0, len(grid[u]), K)]
        lo = rng.integers(0, n - 1, K)
        a, b = gg[lo], gg[lo + 1]
        t1, t2 = rng.uniform(0.1, 0.45, K), rng.uniform(0.55, 0.9, K)
        vals = []
        for xs in (a, a + t1 * (b - a), a + t2 * (b - a), b):
            p = dict(base)
            p[v] = xs
            vals.append(np.asarray(jax.vmap(lambda *q: g(*q, **kw_static))(*mk(p)), dtype=float))
        fa, f1, f2, fb = vals
        lin1 = fa + t1 * (fb - fa)
        lin2 = fa + t2 * (fb - fa)
        add("linearity_checks", 2 * K)
        stol = (1e-9 if x64 else 1e-3) * scale
        if np.any(np.abs(f1 - lin1) > stol) or np.any(np.abs(f2 - lin2) > stol):
            res["violations"].append({"key": "not_linear_between_nodes", "what": f"function is not linear in {v} between neighbouring nodes"})
        # node reproduction
        idx = []
        if sp:
            idx.append(indexer[tuple(base[u] for u in sp)])
        for u in dd:
            idx.append(base[u])
        for u in ct:
            gi = np.argmin(np.abs(np.asarray(base[u] if u != v else a)[:, None] - grid[u][None, :]), axis=1)
            idx.append(gi)
        node_exp = arr_used[tuple(idx)]
        if np.any(np.abs(fa - node_exp) > (1e-11 if x64 else 1e-3) * scale):
            res["violations"].append({"key": "node_not_reproduced", "what": f"function does not reproduce stored values at grid nodes (max dev {np.abs(fa - node_exp).max():.3g})"})
        add("node_reproduction_checks", K)
        if spec[v]["kind"] == "lin" and n >= 2:
            w = gg[-1] - gg[0]
            d1, d2 = rng.uniform(0.05, 0.5, K) * w, rng.uniform(0.05, 0.5, K) * w
            outv = []
            for xs in (np.full(K, gg[-2]), np.full(K, gg[-1]), gg[-1] + d1, np.full(K, gg[0]), np.full(K, gg[1]), gg[0] - d2):
                p = dict(base)
                p[v] = xs
                outv.append(np.asarray(jax.vmap(lambda *q: g(*q, **kw_static))(*mk(p)), dtype=float))
            h = gg[-1] - gg[-2]
            exp_hi = outv[1] + (outv[1] - outv[0]) * d1 / h
            h0 = gg[1] - gg[0]
            exp_lo = outv[3] - (outv[4] - outv[3]) * d2 / h0
            add("extrapolation_checks", 2 * K)
            etol = (1e-9 if x64 else 2e-3) * scale * (1 + 0.5 * w / min(h, h0))
            if np.any(np.abs(outv[2] - exp_hi) > etol) or np.any(np.abs(outv[5] - exp_lo) > etol):
                res["violations"].append({"key": "outer_segment_not_continued", "what": f"outside the linear grid of {v} the function does not continue the outermost segment linearly"})
    res["features"] = {"x64_off": not x64, "restricted": bool(sp), "prefix_" + (prefix or "none"): True, f"cont{n_ct}": True, "log": any(spec[v]["kind"] == "log" for v in ct)}
    res["sig"] = f"{[spec[v]['n'] for v in sp]}|{[spec[v]['n'] for v in dd]}|{[(spec[v]['kind'], spec[v]['n']) for v in ct]}|{prefix}"
    res["nontrivial"] = bool((n_ct >= 1 and n_sp + n_dd >= 1) or n_ct >= 2)
    res["sample"] = {"restricted_states": {v: spec[v]["n"] for v in sp}, "discrete_states": {v: spec[v]["n"] for v in dd}, "continuous_states": {v: spec[v] for v in ct},
                     "array_shape": list(shape), "prefix": prefix, "points": K}
    res["status"] = "violated" if res["violations"] else "held"
    return res
