"""C16 - a grid is either rejected or materialises exactly as specified."""
import numpy as np

ID = "C16"
LEVEL = "exploration"
RULE = (
    "continuous: every (start, stop, n_points) triple from a pool of 31 start/stop values (ints, floats, "
    "bools, +-0.0, negative, 1e-300, 1e300, +-inf, nan, Fraction, Decimal, str, None, complex, numpy scalars) "
    "x 11 n_points values is constructed for LinspaceGrid and LogspaceGrid (pool enumerated exhaustively), "
    "plus random compositions; outcome must be GridInitializationError or an object whose to_jax() has "
    "exactly n_points finite strictly increasing values, first == start, last == stop (n>=2), equal spacing "
    "on the linear/log scale (1e-9). discrete: every category class from a pool of field-value tuples "
    "(enumerated exhaustively) + random tuples; accepted <=> dataclass type with values numerically 0,1,2,.. "
    "(python int/float/bool), then to_jax() == codes. in situ: icontract class invariants / post-conditions on "
    "the real grid classes while generated models are built and processed by the real pipeline. non-trivial = accepted-and-materialised or rejected "
    "cases with a well-defined expectation; distinct = distinct argument tuples."
)
ASSUMPTIONS = [
    "x64 enabled (as in the repository's tests); with float32 1e300 cannot be finite for any implementation",
    "numpy scalar field values, dataclass instances and complex numbers are observed, not judged",
    "spans below the floating-point resolution of the bounds are a recorded known finding",
]
BATCH = {"quick": 1, "thorough": 1}
FLOORS = {"quick": {"grids_constructed": 10000, "accepted_materialised": 500, "rejected": 5000, "discrete_classes": 60, "insitu_grids_checked": 300, "insitu_models_built": 100},
          "thorough": {"grids_constructed": 50000, "accepted_materialised": 5000, "rejected": 10000, "discrete_classes": 2000, "insitu_grids_checked": 3000, "insitu_models_built": 1000}}


def _pool():
    from decimal import Decimal
    from fractions import Fraction

    return [
        ("0", 0), ("1", 1), ("-3", -3), ("7", 7), ("10**6", 10**6), ("True", True), ("False", False),
        ("0.0", 0.0), ("-0.0", -0.0), ("1.0", 1.0), ("2.5", 2.5), ("-2.5", -2.5), ("1e-300", 1e-300), ("1e300", 1e300),
        ("-1e300", -1e300), ("0.1", 0.1), ("100.0", 100.0), ("inf", float("inf")), ("-inf", float("-inf")), ("nan", float("nan")),
        ("Fraction(1,2)", Fraction(1, 2)), ("Decimal('1.5')", Decimal("1.5")), ("'1'", "1"), ("None", None), ("1j", 1j),
        ("np.float64(1.5)", np.float64(1.5)), ("np.float32(3)", np.float32(3)), ("np.int64(2)", np.int64(2)),
        ("[1]", [1]), ("np.array(4.0)", np.array(4.0)), ("1.0000000000000002", 1.0000000000000002),
    ]


def _npool():
    return [("-1", -1), ("0", 0), ("1", 1), ("2", 2), ("3", 3), ("50", 50), ("2.0", 2.0), ("True", True), ("'3'", "3"), ("None", None), ("np.int64(4)", np.int64(4))]


def _disc_pool():
    return [
        ("(0,1)", (0, 1)), ("(0,1,2)", (0, 1, 2)), ("(0,)", (0,)), ("(1,)", (1,)), ("(0,2)", (0, 2)), ("(1,2)", (1, 2)), ("(1,0)", (1, 0)),
        ("(0,1,1)", (0, 1, 1)), ("(0,0)", (0, 0)), ("(0.0,1.0)", (0.0, 1.0)), ("(0,1.0,2)", (0, 1.0, 2)), ("(False,True)", (False, True)),
        ("(0,1.5)", (0, 1.5)), ("(0,None)", (0, None)), ("(None,)", (None,)), ("('a','b')", ("a", "b")), ("(0,'1')", (0, "1")),
        ("()", ()), ("(-1,0)", (-1, 0)), ("(0,1,2,3,4,5,6,7,8,9)", tuple(range(10))), ("(-0.0,1)", (-0.0, 1)), ("(0,nan)", (0, float("nan"))),
        ("(2,1,0)", (2, 1, 0)), ("(0,1,3)", (0, 1, 3)), ("(0,True)", (0, True)), ("(0,1,2.0000001)", (0, 1, 2.0000001)), ("(0,inf)", (0, float("inf"))),
    ]


def plan(tier, seed):
    P, N = _pool(), _npool()
    cases = []
    chunks = 14
    for k in range(chunks):
        cases.append({"kind": "cont_exhaustive", "chunk": k, "chunks": chunks, "seed": [seed, 161, k], "env": {"VERIF_X64": "1"}})
    nr = 14 if tier == "quick" else 56
    for k in range(nr):
        cases.append({"kind": "cont_random", "n": 400 if tier == "quick" else 2500, "seed": [seed, 162, k], "env": {"VERIF_X64": "1"}})
    cases.append({"kind": "disc_exhaustive", "seed": [seed, 163, 0], "env": {"VERIF_X64": "1"}})
    for k in range(6 if tier == "quick" else 30):
        cases.append({"kind": "insitu", "n": 25 if tier == "quick" else 60, "seed": [seed, 165, k], "env": {"VERIF_X64": "1" if k % 3 else "0"}})
    for k in range(4 if tier == "quick" else 28):
        cases.append({"kind": "disc_random", "n": 60 if tier == "quick" else 300, "seed": [seed, 164, k], "env": {"VERIF_X64": "1"}})
    return cases


def _is_num(x):
    return isinstance(x, (int, float)) and not isinstance(x, (np.generic,))


def judge_continuous(kind, sname, start, stop, nname, n_points, res, add):
    """Construct + materialise one grid and judge the outcome."""
    from lcm.exceptions import GridInitializationError
    from lcm.grids import LinspaceGrid, LogspaceGrid

    cls = LinspaceGrid if kind == "lin" else LogspaceGrid
    add("grids_constructed")
    label = f"{cls.__name__}(start={sname}, stop={nname[0]}, n_points={nname[1]})"
    try:
        g = cls(start=start, stop=stop, n_points=n_points)
    except GridInitializationError:
        add("rejected")
        return "rejected"
    except Exception as e:  # noqa: BLE001
        res["violations"].append({"key": f"construct_other_exception|{type(e).__name__}|{_mech(kind, start, stop, n_points)}", "what": f"{label}: raised {type(e).__name__} instead of GridInitializationError"})
        return "violation"
    try:
        arr = np.asarray(g.to_jax(), dtype=float)
    except Exception as e:  # noqa: BLE001
        res["violations"].append({"key": f"to_jax_exception|{type(e).__name__}|{_mech(kind, start, stop, n_points)}", "what": f"{label}: accepted but to_jax() raised {type(e).__name__}: {str(e)[:100]}"})
        return "violation"
    why = None
    try:
        n = int(n_points)
        s, e_ = float(start), float(stop)
    except Exception:  # noqa: BLE001
        res["violations"].append({"key": f"accepted_non_numeric|{_mech(kind, start, stop, n_points)}", "what": f"{label}: accepted although the arguments are not numeric"})
        return "violation"
    # JAX turns python bools into float32 values: the precision in use is float32 then
    rel = 3e-6 if (isinstance(start, bool) or isinstance(stop, bool)) else 1e-9
    if rel > 1e-9 and any(v != 0 and not (1e-30 <= abs(v) <= 1e30) for v in (s, e_)):
        add("bool_bound_outside_float32_range_not_judged")
        return "not_judged"
    if arr.ndim != 1 or arr.shape[0] != n:
        why = f"array has shape {arr.shape}, expected ({n},)"
    elif not np.all(np.isfinite(arr)):
        why = "array contains non-finite values"
    elif n >= 2 and not np.all(np.diff(arr) > 0):
        why = "array is not strictly increasing"
    elif abs(arr[0] - s) > rel * max(abs(s), 1e-300):
        why = f"first element {arr[0]!r} != start {s!r}"
    elif n >= 2 and abs(arr[-1] - e_) > rel * max(abs(e_), 1e-300):
        why = f"last element {arr[-1]!r} != stop {e_!r}"
    elif n >= 3:
        with np.errstate(all="ignore"):
            d = np.diff(arr) if kind == "lin" else np.diff(np.log(arr))
            scale = np.abs(arr).max() if kind == "lin" else np.abs(np.log(arr)).max()
            span = d.mean()
            if np.any(np.abs(d - span) > rel * abs(span) + 64 * (6e-8 if rel > 1e-9 else 2.2e-16) * max(scale, 1.0)):
                why = f"spacing is not equal on the {'linear' if kind == 'lin' else 'log'} scale"
    if why:
        res["violations"].append({"key": f"bad_materialisation|{_mech(kind, start, stop, n_points)}", "what": f"{label}: accepted but {why}; array[:4]={arr[:4].tolist()}"})
        return "violation"
    add("accepted_materialised")
    return "ok"


def _mech(kind, start, stop, n_points):
    """Mechanism key of a failing grid (never the concrete numbers)."""
    def cat(x):
        if isinstance(x, bool):
            return "bool"
        if isinstance(x, (int, float)) or isinstance(x, np.floating):
            try:
                x = float(x)
            except Exception:  # noqa: BLE001
                return type(x).__name__
            if np.isnan(x):
                return "nan"
            if np.isinf(x):
                return "inf"
            if kind == "log" and x <= 0:
                return "nonpositive"
            return "finite"
        return type(x).__name__
    extra = ""
    try:
        s, e = float(start), float(stop)
        if np.isfinite(s) and np.isfinite(e) and e > s:
            if kind == "lin" and (e - s) <= 1e-12 * max(abs(s), abs(e)) * max(int(n_points), 1):
                extra = "|span_below_resolution"
            if kind == "log" and s > 0 and (np.log(e) - np.log(s)) <= 1e-12 * max(int(n_points), 1):
                extra = "|span_below_resolution"
            if kind == "lin" and not np.isfinite(e - s):
                extra = "|span_overflow"
    except Exception:  # noqa: BLE001
        pass
    npk = "bool" if isinstance(n_points, bool) else type(n_points).__name__
    if extra == "|span_below_resolution":
        return f"{kind}|span_below_resolution"
    return f"{kind}|start={cat(start)}|stop={cat(stop)}|n={npk}{extra}"


def judge_discrete(name, values, res, add, mode="class"):
    from dataclasses import make_dataclass

    from lcm.exceptions import GridInitializationError
    from lcm.grids import DiscreteGrid

    add("discrete_classes")
    if mode == "class":
        cls = make_dataclass("Cat", [(f"f{i}", object, v) for i, v in enumerate(values)])
    elif mode == "plain":
        cls = type("Plain", (), {f"f{i}": v for i, v in enumerate(values)})
    elif mode == "nodefault":
        cls = make_dataclass("Cat", [(f"f{i}", int) for i, _ in enumerate(values)])
    elif mode == "classvar":
        # class-level constants next to the category fields: ClassVar-annotated attributes are
        # not dataclass fields, so they neither add categories nor fill gaps
        from typing import ClassVar

        flds = [(f"f{i}", object, v) for i, v in enumerate(values)]
        k = len(values)
        flds.insert(k // 2, ("n_things", ClassVar[int], k // 2))  # would fill a gap / duplicate a code
        flds.append(("label", ClassVar[str], "health"))
        flds.append(("upper", ClassVar[int], k))  # would extend 0..k-1 by one more code
        cls = make_dataclass("Cat", flds)
    else:
        raise ValueError(mode)
    judged = all(isinstance(v, (int, float, bool)) and not isinstance(v, np.generic) for v in values) or any(
        v is None or isinstance(v, str) for v in values)
    should_accept = (
        mode in ("class", "classvar") and len(values) >= 1
        and all(isinstance(v, (int, float, bool)) and not isinstance(v, np.generic) for v in values)
        and all((v == i) for i, v in enumerate(values))
    )
    try:
        g = DiscreteGrid(cls)
        accepted = True
    except GridInitializationError:
        accepted = False
    except Exception as e:  # noqa: BLE001
        res["violations"].append({"key": f"discrete_other_exception|{type(e).__name__}", "what": f"DiscreteGrid({name}, {mode}): raised {type(e).__name__} instead of GridInitializationError"})
        return
    if not judged:
        add("discrete_observed_not_judged")
        return
    if accepted != should_accept:
        res["violations"].append({"key": f"discrete_{'accepted' if accepted else 'rejected'}_wrongly|mode={mode}", "what": f"DiscreteGrid with field values {name} ({mode}): accepted={accepted}, statement says {should_accept}"})
        return
    if accepted:
        arr = np.asarray(g.to_jax())
        if arr.shape != (len(values),) or not np.array_equal(arr.astype(float), np.arange(len(values), dtype=float)):
            res["violations"].append({"key": "discrete_codes_wrong", "what": f"DiscreteGrid {name}: to_jax()={arr.tolist()}"})
            return
        add("discrete_accepted_ok")
    else:
        add("discrete_rejected_ok")


def run_case(case):
    from vlib import pipeline

    rng = pipeline.case_rng(case)
    res = {"counters": {}, "maxima": {}, "violations": [], "features": {}, "nontrivial": True}
    cnt = res["counters"]

    def add(k, n=1):
        cnt[k] = cnt.get(k, 0) + n

    samples = []
    if case["kind"] == "cont_exhaustive":
        P, N = _pool(), _npool()
        triples = [(a, b, c) for a in P for b in P for c in N]
        for j, (a, b, c) in enumerate(triples):
            if j % case["chunks"] != case["chunk"]:
                continue
            for kind in ("lin", "log"):
                o = judge_continuous(kind, a[0], a[1], b[1], (b[0], c[0]), c[1], res, add)
                if len(samples) < 4 and o == "ok":
                    samples.append(f"{kind}({a[0]},{b[0]},{c[0]}) -> {o}")
        res["sig"] = f"cont_exhaustive{case['chunk']}"
        res["exhaustive_chunk"] = True
    elif case["kind"] == "cont_random":
        for _ in range(case["n"]):
            kind = "lin" if rng.random() < 0.5 else "log"
            r = rng.random()
            if kind == "lin":
                s = float(rng.normal() * 10 ** rng.uniform(-3, 6))
                e = s + float(10 ** rng.uniform(-6, 6)) * (1 if r > 0.1 else -1)
            else:
                s = float(10 ** rng.uniform(-8, 8)) * (1 if r > 0.05 else -1)
                e = s * float(10 ** rng.uniform(0.001, 6)) if r > 0.1 else s * 0.5
            if rng.random() < 0.15:
                s, e = int(round(s)), int(round(e)) + (1 if rng.random() < 0.8 else 0)
            n = int(rng.integers(1, 200)) if rng.random() > 0.1 else int(rng.integers(-2, 2))
            o = judge_continuous(kind, repr(s), s, e, (repr(e), repr(n)), n, res, add)
            if len(samples) < 4 and o == "ok":
                samples.append(f"{kind}({s!r},{e!r},{n}) -> {o}")
        res["sig"] = f"cont_random{case['seed']}"
    elif case["kind"] == "disc_exhaustive":
        for name, vals in _disc_pool():
            for mode in ("class", "plain", "nodefault", "classvar"):
                if mode == "nodefault" and not vals:
                    continue
                judge_discrete(name, vals, res, add, mode)
        # not a type at all
        from lcm.exceptions import GridInitializationError
        from lcm.grids import DiscreteGrid

        for obj in (None, 3, "abc", [0, 1], {"a": 0}):
            add("discrete_classes")
            try:
                DiscreteGrid(obj)
                res["violations"].append({"key": "discrete_non_class_accepted", "what": f"DiscreteGrid({obj!r}) accepted"})
            except GridInitializationError:
                add("discrete_rejected_ok")
            except Exception as e:  # noqa: BLE001
                res["violations"].append({"key": f"discrete_other_exception|{type(e).__name__}", "what": f"DiscreteGrid({obj!r}) raised {type(e).__name__}"})
        # many categories (an age or type index): the codes are 0 .. n-1 whatever n is
        for n_cat in (127, 128, 129, 200, 256, 257, 300):
            judge_discrete(f"range({n_cat})", tuple(range(n_cat)), res, add, "class")
            add("discrete_many_category_classes")
        # order of operations in one process: a valid base category class is used first, then a
        # dataclass SUBCLASS that adds categories (anything remembered on the class is inherited)
        from dataclasses import make_dataclass

        for extra_vals, ok_expected in (((2,), True), ((3,), False), ((2, 3), True), ((1,), False), ((2.0,), True)):
            Base = make_dataclass("Base", [("a", int, 0), ("b", int, 1)])
            add("discrete_classes")
            try:
                DiscreteGrid(Base)
            except Exception:  # noqa: BLE001 - judged elsewhere
                pass
            Sub = make_dataclass("Sub", [(f"x{i}", object, v) for i, v in enumerate(extra_vals)], bases=(Base,))
            vals = (0, 1) + tuple(extra_vals)
            should = all(v == i for i, v in enumerate(vals))
            add("discrete_classes")
            try:
                g = DiscreteGrid(Sub)
                acc = True
            except GridInitializationError:
                acc = False
            except Exception as e:  # noqa: BLE001
                res["violations"].append({"key": f"discrete_other_exception|{type(e).__name__}", "what": f"DiscreteGrid(subclass with fields {vals}) raised {type(e).__name__}"})
                continue
            if acc != should:
                res["violations"].append({"key": f"discrete_{'accepted' if acc else 'rejected'}_wrongly|mode=subclass_after_base", "what": f"DiscreteGrid(subclass with field values {vals}) after DiscreteGrid(base (0, 1)): accepted={acc}, statement says {should}"})
            elif acc:
                arr = np.asarray(g.to_jax())
                if arr.shape != (len(vals),) or not np.array_equal(arr.astype(float), np.arange(len(vals), dtype=float)):
                    res["violations"].append({"key": "discrete_codes_wrong|mode=subclass_after_base", "what": f"DiscreteGrid(subclass with field values {vals}) after its base class: to_jax()={arr.tolist()}"})
                else:
                    add("discrete_accepted_ok")
            else:
                add("discrete_rejected_ok")
        samples = [n for n, _ in _disc_pool()[:6]]
        res["sig"] = "disc_exhaustive"
        res["exhaustive_chunk"] = True
    elif case["kind"] == "insitu":
        # W6: icontract class invariants on the real grid classes while generated models are
        # built and processed by the real pipeline
        from lcm.input_processing import process_model

        from vlib import contracts, dsl, gen

        undo = contracts.install_grid_contracts()
        try:
            for j in range(case["n"]):
                r2 = np.random.default_rng([int(x) for x in case["seed"]] + [j])
                desc, _ = gen.gen_model(r2, feats=gen.draw_features(r2, j))
                try:
                    m = dsl.build_lcm_model(desc)
                    im = process_model(m)
                    for name, g in im.grids.items():
                        np.asarray(g)
                    add("insitu_models_built")
                    # W11: the grids of the continuous choices that the generated solve function
                    # really HOLDS must be the specified grids (linear / logarithmic spacing)
                    if j % 3 == 0:
                        from vlib import pipeline as _pl

                        fgen, _ = _pl.get_lcm_function(m, "solve", jit=False)
                        ccg = (getattr(fgen, "keywords", None) or {}).get("continuous_choice_grids")
                        specs = dict(desc["choices"])
                        if isinstance(ccg, list) and ccg and all(isinstance(x, dict) for x in ccg):
                            for gd in ccg:
                                for nm, arr_ in gd.items():
                                    if nm in specs and specs[nm]["kind"] != "disc":
                                        exp_ = dsl.ref_grid(specs[nm])
                                        a_ = np.asarray(arr_, dtype=float)
                                        add("w11_held_choice_grids_checked")
                                        from vlib import bootstrap as _bs

                                        if a_.shape != exp_.shape or np.max(np.abs(a_ - exp_)) > (1e-9 if _bs.X64 else 1e-5) * (1 + np.abs(exp_).max()):
                                            res["violations"].append({"key": f"held_choice_grid_not_as_specified|{specs[nm]['kind']}", "what": f"the generated solve function holds {a_.tolist()[:6]} as grid of the continuous choice {nm}; the specification {specs[nm]} materialises to {exp_.tolist()[:6]}"})
                        else:
                            add("w11_unavailable")
                except (contracts.InvariantBroken, contracts.PostBroken) as e:
                    res["violations"].append({"key": "insitu_contract_broken", "what": f"grid contract broken while building a generated model: {str(e)[-200:]}"})
                if len(samples) < 2:
                    samples.append({v: sp for v, sp in desc["states"] + desc["choices"]})
            for f in contracts.drain():
                if not any(f["what"] in v["what"] for v in res["violations"]):
                    res["violations"].append(f)
        finally:
            undo()
        for k, v in contracts.COUNTERS.items():
            add(k, v)
        contracts.COUNTERS.clear()
        res["sig"] = f"insitu{case['seed']}"
    else:
        for _ in range(case["n"]):
            k = int(rng.integers(1, 7))
            r = rng.random()
            if r < 0.4:
                vals = list(range(k))
            elif r < 0.6:
                vals = [int(x) for x in rng.permutation(k)]
            elif r < 0.8:
                vals = [int(x) for x in rng.integers(0, k + 1, k)]
            else:
                vals = [float(i) if rng.random() < 0.5 else i for i in range(k)]
                if rng.random() < 0.3:
                    vals[int(rng.integers(0, k))] += 0.5
            judge_discrete(str(tuple(vals)), tuple(vals), res, add, "class")
        res["sig"] = f"disc_random{case['seed']}"
    res["sample"] = {"kind": case["kind"], "examples": samples}
    res["status"] = "violated" if res["violations"] else "held"
    res["features"] = {case["kind"]: True}
    return res


def aggregate(results, tier):
    n = sum(1 for r in results if r.get("exhaustive_chunk") and r.get("status") in ("held", "violated"))
    distinct = sum(r.get("counters", {}).get("grids_constructed", 0) + r.get("counters", {}).get("discrete_classes", 0) for r in results)
    return {"exhaustive_subspaces": {"continuous_pool_triples": "31*31*11 triples x 2 grid types" if n >= 14 else "incomplete", "discrete_pool": "27 value tuples x 3 class kinds + 5 non-classes"},
            "distinct_nontrivial": int(distinct), "evaluations": int(distinct)}
