"""C04 - stochastic draws: specified probabilities, independent, seed-reproducible."""
import itertools

import numpy as np

ID = "C04"
LEVEL = "exploration"
RULE = (
    "cases = dedicated stochastic models (1-3 stochastic states, dependency sets over discrete states, "
    "choices and _period in shuffled signature order, rows with zeros and one-hot rows, table utilities so "
    "that choices vary) x N agents (quick 20000, thorough 200000; random or all-identical initial states) x "
    "T<=4; the real simulate function is run for seed A, seed A again, and seed B. monitors over the "
    "recorded panel: (1) per (variable, period, dependency row) cell with n>=100 every label count within "
    "the Bernstein bound at level 1e-13; (2) zero-probability labels never drawn (exact); (3) independence: "
    "joint counts of two stochastic variables within joint-dependency cells, counts conditional on the "
    "variable's own previous value when it is not a dependency (periods), lag-1 and lag-N/2 pair counts "
    "along the agent index within cells (agents); (4) same seed -> identical frames, other seed -> identical "
    "period 0 and different later draws; (5) key trace: every PRNG key handed out in a run is distinct, the "
    "carried key changes each period, one key per stochastic variable and period. non-trivial = >= 5 cells "
    "with n>=100; distinct = (model structure, transition arrays)."
)
ASSUMPTIONS = ["statistical monitor: bounds, does not prove; deviations below the Bernstein half-width (~7.8 sd) are invisible",
               "family-wise false-alarm probability < 1e-8 per run (<= 1e5 tests at 1e-13)"]
BATCH = {"quick": 2, "thorough": 2}
TIMEOUT = {"quick": 1500, "thorough": 7200}
FLOORS = {"quick": {"frequency_cells": 400, "zero_prob_label_cells": 200, "joint_cells": 100, "own_lag_cells": 150, "cross_lag_cells": 100, "agent_lag_cells": 200, "seed_pairs": 25, "draws_observed": 1500000, "seed_effect_seen": 10},
          "thorough": {"frequency_cells": 1500, "zero_prob_label_cells": 900, "joint_cells": 1500, "own_lag_cells": 1500, "cross_lag_cells": 1500, "agent_lag_cells": 1500, "seed_pairs": 200, "draws_observed": 100000000, "seed_effect_seen": 100}}


def plan(tier, seed):
    n = 42 if tier == "quick" else 320
    cases = [{"index": i, "seed": [seed, 401, i], "agents": 20000 if tier == "quick" else 200000,
              "identical_init": i % 3 == 2, "env": {"VERIF_X64": "1"}} for i in range(n)]
    # "same seed -> identical frames" also across interpreter sessions: a few cases are run a
    # second time in another worker process under another PYTHONHASHSEED; the digests of the
    # seed-A frames are compared by aggregate()
    for i in range(0, n, 7 if tier == "quick" else 16):
        cases.append({**cases[i], "twin_of": i, "agents": 2000, "env": {"VERIF_X64": "1", "PYTHONHASHSEED": "1"}})
        cases.append({**cases[i], "twin_of": i, "agents": 2000, "env": {"VERIF_X64": "1", "PYTHONHASHSEED": "0", "VERIF_TWIN": "b"}})
    return cases


def make_desc(rng, index):
    nst = [1, 2, 2, 3][index % 4]
    T = int(rng.integers(2, 5))
    sizes = {"s1": int(rng.integers(2, 5)), "s2": int(rng.integers(2, 4)), "s3": 2, "d": int(rng.integers(2, 4)), "c": int(rng.integers(2, 4))}
    stoch = ["s1", "s2", "s3"][:nst]
    states = [[s, {"kind": "disc", "n": sizes[s]}] for s in stoch] + [["d", {"kind": "disc", "n": sizes["d"]}]]
    choices = [["c", {"kind": "disc", "n": sizes["c"]}]]
    if rng.random() < 0.3:
        choices.append(["x", {"kind": "lin", "start": 0.5, "stop": 2.0, "n": 3}])
    svars = [s for s, _ in states]
    tables, params, fns = {}, {"beta": 0.9}, []
    dims = [sizes[s] for s in svars] + [sizes["c"], T]
    tables["UT"] = (rng.normal(size=dims) * 2).round(4).tolist()
    uargs = svars + ["c", "_period"] + (["x"] if len(choices) > 1 else [])
    fns.append(["utility", uargs, f"UT[{', '.join(svars + ['c', '_period'])}]" + (" + 0.1 * xp.log(x)" if len(choices) > 1 else "")])
    params["utility"] = {}
    fns.append(["next_d", ["d", "c"], f"(d + c) % {sizes['d']}"])
    params["next_d"] = {}
    shocks = {}
    own_lag = {}
    for s in stoch:
        pool = [v for v in svars + ["c", "_period"] if v != s]
        k = int(rng.integers(0, min(3, len(pool)) + 1))
        deps = [str(x) for x in rng.permutation(pool)[:k]]
        own = bool(rng.random() < 0.25)
        if own:
            deps.append(s)
        if not deps:
            deps = [str(rng.choice(pool))]
        deps = [str(x) for x in rng.permutation(deps)]
        own_lag[s] = own
        dd = [T if v == "_period" else sizes[v] for v in deps] + [sizes[s]]
        P = rng.random(dd) ** 1.5 + 0.05
        P = np.where(rng.random(dd) < 0.2, 0.0, P)
        onehot = rng.random(dd[:-1]) < 0.1
        lab = rng.integers(0, sizes[s], dd[:-1])
        P = np.where(onehot[..., None], np.eye(sizes[s])[lab], P)
        z = P.sum(-1) == 0
        P[..., 0] = np.where(z, 1.0, P[..., 0])
        P = P / P.sum(-1, keepdims=True)
        shocks[s] = P.tolist()
        fns.append([f"next_{s}", deps, "None"])
        params[f"next_{s}"] = {}
    params["shocks"] = shocks
    fns = [fns[i] for i in rng.permutation(len(fns))]
    states = [states[i] for i in rng.permutation(len(states))]
    return {"n_periods": T, "states": states, "choices": choices, "functions": fns, "stochastic": [f"next_{s}" for s in stoch],
            "tables": tables, "params": params}, own_lag


def run_case(case):
    from vlib import dsl, pipeline, simcheck, stats
    from vlib.refmodel import Ref
    import jax
    import lcm.simulate as sim

    rng = pipeline.case_rng(case)
    desc, own_lag = make_desc(rng, case["index"])
    ref = Ref(desc)
    params = desc["params"]
    refsol = ref.solve(params)
    res = {"counters": {}, "maxima": {}, "violations": [], "features": {}, "nontrivial": False}
    cnt = res["counters"]

    def add(k, n=1):
        cnt[k] = cnt.get(k, 0) + int(n)

    N, T = case["agents"], ref.T
    if case["identical_init"]:
        init = {s: np.full(N, int(rng.integers(0, ref.spec[s]["n"]))) for s in ref.states}
    else:
        init = {s: rng.integers(0, ref.spec[s]["n"], N) for s in ref.states}
    vf = simcheck.vf_arrays(ref, params, "ref", rng, refsol=refsol)
    # W5 key trace
    traces = []
    orig = getattr(sim, "_generate_simulation_keys", None)
    if orig is not None:
        def traced(*a, **k):
            r = orig(*a, **k)
            try:
                key = k.get("key", a[0] if a else None)
                k2, ks = r
                traces[-1].append((np.asarray(key).tolist(), np.asarray(k2).tolist(), {str(n): np.asarray(v).tolist() for n, v in ks.items()}))
            except Exception:  # noqa: BLE001 - interface changed: the trace is unavailable, not a verdict
                traces[-1].append(None)
            return r

        sim._generate_simulation_keys = traced
    try:
        model = dsl.build_lcm_model(desc)
        fsim, _ = pipeline.get_lcm_function(model, "simulate")
        sA, sB = int(rng.integers(0, 2**31 - 1)), int(rng.integers(0, 2**31 - 1))
        if case["index"] % 4 == 1:
            sA = 0  # a legitimate seed like any other
            add("seed_zero_cases")
        elif case["index"] % 4 == 3:
            sB = 0
        dfs = []
        # one initial_states mapping object for all three runs of half of the cases (a
        # seed-reproducibility loop re-uses its inputs); it must come back unchanged
        st_shared = pipeline.jnp_states(init) if case["index"] % 2 == 0 else None
        for sd in (sA, sA, sB):
            traces.append([])
            dfs.append(simcheck.simulate_once(fsim, params, init, vf, seed=sd, st_obj=st_shared))
        res["violations"] += simcheck.drain_argument_mutations()
        if st_shared is not None:
            add("runs_sharing_one_initial_states_mapping", 3)
    except Exception as e:  # noqa: BLE001
        res["violations"].append({"key": pipeline.exc_key(e, "simulate"), "what": pipeline.exc_text(e)})
        res["status"] = "violated"
        return res
    finally:
        if orig is not None:
            sim._generate_simulation_keys = orig
    # ---------------------------------------------------------------- (4) seeds
    add("seed_pairs")
    bad = simcheck.frames_equal(dfs[0], dfs[1], tol=0.0)
    if bad:
        res["violations"].append({"key": "same_seed_differs", "what": f"two runs with seed {sA} differ in columns {bad}"})
    if len(dfs[0]) == T * N and len(dfs[2]) == T * N:
        p0a, p0b = dfs[0].iloc[:N], dfs[2].iloc[:N]
        bad0 = simcheck.frames_equal(p0a, p0b, tol=0.0)
        if bad0:
            res["violations"].append({"key": "seed_changes_period0", "what": f"changing the seed changes period 0 in columns {bad0}"})
        later_same = all(np.array_equal(dfs[0][s].values[N:], dfs[2][s].values[N:]) for s in ref.states if f"next_{s}" in ref.stoch)
        # sanity only (not part of the statement): is the seed used at all?
        add("seed_effect_seen", 0 if later_same else 1)
    # ---------------------------------------------------------------- (5) key trace
    if orig is None:
        add("w5_unavailable")
    else:
        for tr in traces:
            if any(x is None for x in tr) or len(tr) == 0:
                add("w5_unavailable")
                continue
            add("key_traces")
            allk = []
            for (kin, kout, ks) in tr:
                # interface details (one call per period, one key per variable) are the
                # implementation's business; what matters is that no key is handed out twice
                allk.append(tuple(kout))
                allk += [tuple(v) for v in ks.values()]
                if len(ks) == len(ref.stoch) and kin != kout:
                    add("key_calls_in_expected_form")
            if len(set(allk)) != len(allk):
                res["violations"].append({"key": "key_reused", "what": "a PRNG key was handed out more than once within one run (same key returned as carried key or given to two variables/periods)"})
            add("keys_observed", len(allk))
    # ---------------------------------------------------------------- (1)-(3) frequencies
    df = dfs[0]
    if len(df) == T * N:
        cols = {c: np.asarray(df[c].values).reshape(T, N) for c in ref.states + ref.choices}
        maxz = 0.0
        for t in range(T - 1):
            envt = {v: cols[v][t].astype(int) for v in ref.states + [c for c in ref.choices if ref.is_disc(c)]}
            envt["_period"] = np.full(N, t)
            nxt = {s: cols[s][t + 1] for s in ref.states}
            rowid = {}
            for name in ref.stoch:
                s = name[len("next_"):]
                deps = ref.fargs[name]
                P = np.asarray(params["shocks"][s], dtype=float)
                nl = P.shape[-1]
                dims = P.shape[:-1]
                rid = np.ravel_multi_index(tuple(envt[v] for v in deps), dims) if deps else np.zeros(N, int)
                rowid[s] = (rid, int(np.prod(dims)) if deps else 1)
                lab = np.asarray(nxt[s])
                if np.any(lab != lab.astype(int)) or np.any((lab < 0) | (lab >= nl)):
                    res["violations"].append({"key": "not_a_label", "what": f"period {t + 1}: {s} takes values outside its labels"})
                    continue
                lab = lab.astype(int)
                add("draws_observed", N)
                ncell = rowid[s][1]
                counts = np.zeros((ncell, nl))
                np.add.at(counts, (rid, lab), 1)
                nrow = counts.sum(1)
                Pf = P.reshape(ncell, nl)
                big = nrow >= 100
                add("frequency_cells", int(big.sum()))
                # zero-probability labels: exact, in every cell
                zl = (Pf == 0) & (nrow[:, None] > 0)
                add("zero_prob_label_cells", int(zl.sum()))
                if np.any(counts[zl] > 0):
                    r0 = int(np.argwhere(zl & (counts > 0))[0][0])
                    res["violations"].append({"key": "zero_probability_label_drawn", "what": f"period {t}->{t + 1}: {s}: a label with probability 0 was drawn {int(counts[zl].sum())} times (dependency row {np.unravel_index(r0, dims) if deps else ()} of {deps})"})
                out = stats.count_outside(counts, nrow[:, None], Pf) & big[:, None]
                z = np.abs(stats.zscore(counts, nrow[:, None], Pf))
                if big.any():
                    maxz = max(maxz, float(z[big].max()))
                if out.any():
                    r0, l0 = [int(x) for x in np.argwhere(out)[0]]
                    res["violations"].append({"key": "frequency_mismatch", "what": f"period {t}->{t + 1}: {s}: dependency row {np.unravel_index(r0, dims) if deps else ()} of {deps}: label {l0} drawn {int(counts[r0, l0])}/{int(nrow[r0])} times, transition array says p={Pf[r0, l0]:.4f} (|z|={z[r0, l0]:.1f}); {int(out.sum())} (cell,label) pairs outside the bound"})
                # independence across periods and variables: the draw must be independent of the
                # CURRENT value of every stochastic state that is not one of its dependencies
                # (its own previous draw, or another variable's previous draw)
                for name_v in ref.stoch:
                    v = name_v[len("next_"):]
                    if v in deps:
                        continue
                    nv = ref.spec[v]["n"]
                    cur = np.clip(cols[v][t].astype(int), 0, nv - 1)
                    rid2 = rid * nv + cur
                    c2 = np.zeros((ncell * nv, nl))
                    np.add.at(c2, (rid2, lab), 1)
                    n2 = c2.sum(1)
                    P2 = np.repeat(Pf, nv, axis=0)
                    big2 = n2 >= 100
                    add("own_lag_cells" if v == s else "cross_lag_cells", int(big2.sum()))
                    o2 = stats.count_outside(c2, n2[:, None], P2) & big2[:, None]
                    if o2.any():
                        which = "its own previous value" if v == s else f"the current value of {v} (drawn one period earlier)"
                        res["violations"].append({"key": "dependence_across_periods" if v == s else "dependence_across_periods_and_variables",
                                                  "what": f"period {t}->{t + 1}: {s}: conditional on {which} (not a dependency) the label frequencies leave the bound in {int(o2.sum())} sub-cells: draws are not independent"})
                # independence across agents: pairs along the agent index within a cell
                for lagk in (1, N // 2):
                    a, b = np.arange(N - lagk), np.arange(lagk, N)
                    same_cell = rid[a] == rid[b]
                    for r in np.unique(rid[a][same_cell])[:40]:
                        m = same_cell & (rid[a] == r)
                        n_pairs = int(m.sum())
                        if n_pairs < 400:
                            continue
                        pr = Pf[r]
                        pa = float((pr ** 2).sum())
                        if pa >= 1.0:
                            continue
                        agree = int((lab[a][m] == lab[b][m]).sum())
                        add("agent_lag_cells")
                        # pairs overlap (i,i+k),(i+k,i+2k): treat as m-dependent -> use n/2 effective
                        if stats.count_outside(agree, n_pairs, pa) and stats.count_outside(agree // 2, n_pairs // 2, pa):
                            res["violations"].append({"key": "dependence_across_agents", "what": f"period {t}->{t + 1}: {s}: agents {lagk} apart in the same dependency row draw equal labels {agree}/{n_pairs} times, expected rate {pa:.4f}"})
                            break
            # independence across variables
            for s_a, s_b in itertools.combinations([n[len("next_"):] for n in ref.stoch], 2):
                if s_a not in rowid or s_b not in rowid:
                    continue
                (ra, na_), (rb, nb_) = rowid[s_a], rowid[s_b]
                Pa = np.asarray(params["shocks"][s_a], dtype=float).reshape(na_, -1)
                Pb = np.asarray(params["shocks"][s_b], dtype=float).reshape(nb_, -1)
                la, lb = Pa.shape[1], Pb.shape[1]
                joint_row = ra * nb_ + rb
                jl = np.asarray(nxt[s_a]).astype(int) * lb + np.asarray(nxt[s_b]).astype(int)
                cj = np.zeros((na_ * nb_, la * lb))
                np.add.at(cj, (joint_row, jl), 1)
                nj = cj.sum(1)
                Pj = (Pa[:, None, :, None] * Pb[None, :, None, :]).reshape(na_ * nb_, la * lb)
                bigj = nj >= 100
                add("joint_cells", int(bigj.sum()))
                oj = stats.count_outside(cj, nj[:, None], Pj) & bigj[:, None]
                if oj.any():
                    res["violations"].append({"key": "dependence_across_variables", "what": f"period {t}->{t + 1}: joint label counts of {s_a} and {s_b} leave the product bound in {int(oj.sum())} (cell,label pair)s: draws of different stochastic variables are not independent"})
        res["maxima"]["max_abs_z"] = maxz
    else:
        res["violations"].append({"key": "panel_rowcount", "what": f"{len(df)} rows, expected {T * N}"})
    res["features"] = {"identical_init": case["identical_init"], f"n_stoch_{len(ref.stoch)}": True, "own_lag_dep": any(own_lag.values()),
                       "period_dep": any("_period" in ref.fargs[n] for n in ref.stoch), "choice_dep": any("c" in ref.fargs[n] for n in ref.stoch)}
    res["sig"] = f"{[(n, ref.fargs[n]) for n in ref.stoch]}{pipeline.param_hash(params)}"
    res["nontrivial"] = bool(cnt.get("frequency_cells", 0) >= 5)
    res["sample"] = {"stochastic": {n: ref.fargs[n] for n in ref.stoch}, "sizes": {v: ref.spec[v]["n"] for v in ref.spec}, "n_periods": T, "agents": N,
                     "identical_initial_states": case["identical_init"], "example_row": np.asarray(params["shocks"][ref.stoch[0][len('next_'):]]).reshape(-1, ref.spec[ref.stoch[0][len('next_'):]]["n"])[0].round(3).tolist()}
    if "twin_of" in case:
        import hashlib

        h = hashlib.sha1()
        for c in sorted(df.columns):
            h.update(np.ascontiguousarray(np.asarray(df[c].values, dtype=np.float64)).tobytes())
        res["twin"] = {"of": case["twin_of"], "digest": h.hexdigest(), "hashseed": case["env"].get("PYTHONHASHSEED")}
    res["status"] = "violated" if res["violations"] else "held"
    return res


def aggregate(results, tier):
    groups = {}
    for r in results:
        t = r.get("twin")
        if t:
            groups.setdefault(t["of"], []).append((t["hashseed"], t["digest"], r["id"]))
    viol, n = [], 0
    for of, lst in groups.items():
        if len({h for h, _, _ in lst}) >= 2:
            n += 1
            if len({d for _, d, _ in lst}) > 1:
                viol.append({"case_id": lst[0][2], "key": "same_seed_differs_across_sessions",
                             "what": f"model {of}: the same simulate call (same params, initial states, seed) gives different frames in two interpreter sessions (PYTHONHASHSEED {[h for h, _, _ in lst]})"})
    inc = [] if n >= 3 else [f"only {n} cross-session seed pairs compared"]
    return {"violations": viol, "inconclusive": inc, "cross_session_seed_pairs": n}
